#!/bin/sh
# One-off, offline: builds the harness against /repo's working tree (all crates come from the local cargo registry cache).
DIR=$(cd "$(dirname "$0")" && pwd)
export CARGO_NET_OFFLINE=true
export CARGO_TARGET_DIR="$DIR/target/harness"
mkdir -p "$DIR/target" "$DIR/evidence" "$DIR/replays"
cd "$DIR/harness" && RUSTFLAGS="--cfg pachi_cteenergymodel_verif" cargo build --release --offline 2>&1 | tail -n 3
