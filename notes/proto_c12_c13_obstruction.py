import json, math, sys
import numpy as np
def Rz(deg):
    r=math.radians(deg); c,s=math.cos(r),math.sin(r); return np.array([[c,-s,0],[s,c,0],[0,0,1.0]])
def Rx(deg):
    r=math.radians(deg); c,s=math.cos(r),math.sin(r); return np.array([[1.0,0,0],[0,c,-s],[0,s,c]])
def frame(g):
    M=Rz(g['azimuth'])@Rx(g['tilt']); return np.array(g['position'],float), M
def gpts(g, pts3=None):
    p0,M=frame(g)
    return [p0+M@np.array([x,y,0.0]) for x,y in g['polygon']]
def hit(orig, d, poly):
    # poly: list of 3D coplanar points (simple polygon). returns (hit, margin_mm_ambiguous)
    n=None
    for i in range(len(poly)):
        a=poly[(i+1)%len(poly)]-poly[i]; b=poly[(i+2)%len(poly)]-poly[(i+1)%len(poly)]
        c=np.cross(a,b)
        if np.linalg.norm(c)>1e-9: n=c/np.linalg.norm(c); break
    if n is None: return False, False
    den=n@d
    if abs(den)<1e-9: return False, abs(den)<1e-3
    t=(n@(poly[0]-orig))/den
    if t<=0: return False, abs(t)<1e-3
    P=orig+t*d
    # 2D basis
    u=poly[1]-poly[0]; u/=np.linalg.norm(u); v=np.cross(n,u)
    q=[((p-poly[0])@u,(p-poly[0])@v) for p in poly]; x,y=(P-poly[0])@u,(P-poly[0])@v
    # winding / crossing + distance to outline
    inside=False; mind=1e9; m=len(q)
    for i in range(m):
        x1,y1=q[i]; x2,y2=q[(i+1)%m]
        if (y1>y)!=(y2>y):
            xi=x1+(y-y1)*(x2-x1)/(y2-y1)
            if xi>x: inside=not inside
        # distance point-segment
        dx,dy=x2-x1,y2-y1; L=dx*dx+dy*dy
        tt=0 if L==0 else max(0,min(1,((x-x1)*dx+(y-y1)*dy)/L))
        mind=min(mind, math.hypot(x-(x1+tt*dx), y-(y1+tt*dy)))
    return inside, (mind<1e-3 or abs(t)<1e-3 or abs(den)<1e-3)
def match(a,b):
    n=len(a)
    if n!=len(b): return 1e9
    best=1e9
    for rev in (False,True):
        bb=list(reversed(b)) if rev else list(b)
        for s in range(n):
            best=min(best,max(np.linalg.norm(a[i]-bb[(i+s)%n]) for i in range(n)))
    return best
def main(mp, dp):
    m=json.load(open(mp)); D=json.load(open(dp))
    walls={w['id']:w for w in m['walls']}
    occ=[]  # (id, linked, pts)
    for w in m['walls']:
        g=w['geometry']
        if w['bounds'] in('EXTERIOR','ADIABATIC') and g.get('position') and g.get('polygon'): occ.append((w['id'],None,gpts(g)))
    for s in m.get('shades',[]):
        g=s['geometry']
        if g.get('position') and g.get('polygon'): occ.append((s['id'],None,gpts(g)))
    for win in m['windows']:
        w=walls.get(win['wall']); g=win['geometry']
        if not w or not w['geometry'].get('position') or not g.get('position') or abs(g.get('setback',0))<0.01: continue
        p0,M=frame(w['geometry']); x,y=g['position']; wd,h,sb=g['width'],g['height'],g['setback']
        def P(a,b,c): return p0+M@np.array([a,b,c])
        quads=[[P(x,y+h,0),P(x,y+h,-sb),P(x+wd,y+h,-sb),P(x+wd,y+h,0)],
               [P(x,y,0),P(x,y,-sb),P(x,y+h,-sb),P(x,y+h,0)],
               [P(x+wd,y,0),P(x+wd,y,-sb),P(x+wd,y+h,-sb),P(x+wd,y+h,0)],
               [P(x,y,0),P(x,y,-sb),P(x+wd,y,-sb),P(x+wd,y,0)]]
        for q in quads: occ.append(('rev',win['id'],q))
    # compare occluder sets
    imp=D['occluders']
    print('occluders: ref',len(occ),'impl',len(imp))
    iw=[o for o in imp if o['linked'] is None]; rw=[o for o in occ if o[1] is None]
    byid={o['id']:o for o in iw}
    bad=0
    for o in rw:
        io=byid.get(o[0])
        if io is None or match(o[2],[np.array(p) for p in io['pts']])>1e-3: bad+=1
    print('  wall/shade occluders mismatching:',bad,'of',len(rw))
    # reveals: per window, impl 4 quads vs ref 4 quads (any assignment)
    rbad=0; rn=0; rtilt=[]
    for win in m['windows']:
        ir=[[np.array(p) for p in o['pts']] for o in imp if o['linked']==win['id']]
        rr=[o[2] for o in occ if o[1]==win['id']]
        if len(ir)!=len(rr): rbad+=1; rn+=1; continue
        for q in rr:
            rn+=1
            if min((match(q,z) for z in ir),default=1e9)>1e-3: rbad+=1; rtilt.append(walls[win['wall']]['geometry']['tilt'])
    print('  reveal quads mismatching:',rbad,'of',rn, 'tilts of mismatching',sorted(set(rtilt)))
    # sunlit fractions
    tot=0; diff=0; amb_total=0; fbad=0
    for W in D['windows']:
        win=[x for x in m['windows'] if x['id']==W['id']][0]; w=walls[win['wall']]
        p0,M=frame(w['geometry']); n=M@np.array([0,0,1.0])
        origins=[np.array(o) for o in W['origins']]
        cand=[o for o in occ if o[0]!=w['id'] and (o[1] is None or o[1]==win['id'])]
        fs=[]; slack=0
        for H in W['hours']:
            d=np.array(H['sun'],float)
            if n@d<0.01: s=0.0
            elif not origins: s=float('nan')
            else:
                blocked=0; amb=0
                for o in origins:
                    b=False; a=False
                    for c in cand:
                        h,am=hit(o,d,c[2])
                        if am: a=True
                        if h: b=True
                    blocked+=b; amb+= (a and True)
                s=1-blocked/len(origins); slack+=amb/len(origins)
            tot+=1
            if abs(s-H['sunlit'])>1e-6+ (slack if False else 0):
                diff+=1
            fs.append((s*H['dir']+H['dif'])/(H['dir']+H['dif']))
        F=sum(fs)/len(fs)
        if abs(F-W['fshobst'])>0.0051+slack/len(fs): fbad+=1; print('   fshobst',W['name'],'impl',W['fshobst'],'ref',round(F,4),'slack',slack/len(fs))
    print('  hour-level sunlit differing:',diff,'of',tot,' fshobst out of tolerance:',fbad,'of',len(D['windows']))
main(sys.argv[1], sys.argv[2])
