import re, json, math, sys
import numpy as np

def read_bdl(path):
    t = open(path, encoding='utf8', errors='replace').read()
    m = re.search(r'<EntradaGraficaLIDER>\s*(?:<!\[CDATA\[)?(.*?)(?:\]\]>)?\s*</EntradaGraficaLIDER>', t, re.S)
    if m: t = m.group(1)
    lines = [l.strip() for l in t.replace('\r\n','\n').split('\n')]
    lines = [l for l in lines if l and not l.startswith('$') and not l.startswith('+')]
    blocks=[]; cur=None
    i=0
    while i < len(lines):
        l=lines[i]
        if l=='..':
            if cur: blocks.append(cur); cur=None
            i+=1; continue
        if cur is None:
            mm = re.match(r'^"?(.*?)"?\s*=\s*([A-Z-]+)\s*$', l)
            if mm: cur={'name':mm.group(1).strip(),'type':mm.group(2),'attrs':{}}
            i+=1; continue
        if '=' in l:
            k,v = l.split('=',1); k=k.strip(); v=v.strip()
            if v.startswith('(') and not v.endswith(')'):
                while True:
                    i+=1; v+=lines[i].strip()
                    if lines[i].strip().endswith(')'): break
            cur['attrs'][k]=v.strip('"')
        i+=1
    return blocks

def num(a,k,d=0.0):
    try: return float(a.get(k,d))
    except: return d

def Rz(deg):
    r=math.radians(deg); c,s=math.cos(r),math.sin(r)
    return np.array([[c,-s,0],[s,c,0],[0,0,1]])
def Rx(deg):
    r=math.radians(deg); c,s=math.cos(r),math.sin(r)
    return np.array([[1,0,0],[0,c,-s],[0,s,c]])

def model_wall_points(w):
    g=w['geometry']
    if 'position' not in g or g['position'] is None: return None
    M = Rz(g['azimuth']) @ Rx(g['tilt'])
    p0=np.array(g['position'])
    return [p0 + M @ np.array([x,y,0.0]) for x,y in g['polygon']]

def match(a,b):
    # cyclic, either direction
    n=len(a)
    if n!=len(b): return 1e9
    best=1e9
    for rev in (False,True):
        bb = list(reversed(b)) if rev else list(b)
        for s in range(n):
            d=max(np.linalg.norm(a[i]-bb[(i+s)%n]) for i in range(n))
            best=min(best,d)
    return best

def main(bdlpath, modelpath):
    blocks=read_bdl(bdlpath)
    model=json.load(open(modelpath))
    walls={w['name']:w for w in model['walls']}
    polys={b['name']:b for b in blocks if b['type']=='POLYGON'}
    floors={}; spaces={}
    curfloor=None; curspace=None
    gdev=0.0
    for b in blocks:
        if b['type']=='BUILD-PARAMETERS': gdev=num(b['attrs'],'AZIMUTH')
    res={}
    for b in blocks:
        a=b['attrs']
        if b['type']=='FLOOR':
            curfloor={'z':num(a,'Z'),'h':num(a,'SPACE-HEIGHT')}
        elif b['type']=='SPACE':
            pts=[]
            pa=polys[a['POLYGON']]['attrs']
            i=1
            while 'V%d'%i in pa:
                x,y=[float(v) for v in pa['V%d'%i].strip('() ').split(',')]; pts.append((x,y)); i+=1
            curspace={'name':b['name'],'x':num(a,'X'),'y':num(a,'Y'),'z':num(a,'Z')+curfloor['z'],'az':num(a,'AZIMUTH'),'h':curfloor['h'],'poly':pts}
        elif b['type'] in ('EXTERIOR-WALL','INTERIOR-WALL','UNDERGROUND-WALL','ROOF'):
            loc=a.get('LOCATION')
            s=curspace
            def to_global(p):  # p in space coords (3d)
                pb = np.array([s['x'],s['y'],s['z']]) + Rz(-s['az']) @ np.array(p)
                return Rz(-gdev) @ pb
            exp=None
            if loc and loc.startswith('SPACE-V') and 'POLYGON' not in a:
                n=int(loc[7:])-1
                p1=s['poly'][n]; p2=s['poly'][(n+1)%len(s['poly'])]
                wx,wy,wz=num(a,'X'),num(a,'Y'),num(a,'Z')
                exp=[to_global((p1[0]+wx,p1[1]+wy,wz)),to_global((p2[0]+wx,p2[1]+wy,wz)),to_global((p2[0]+wx,p2[1]+wy,wz+s['h'])),to_global((p1[0]+wx,p1[1]+wy,wz+s['h']))]
                kind='vertex'
            elif loc=='TOP' and 'POLYGON' not in a:
                exp=[to_global((x,y,s['h'])) for x,y in s['poly']]; kind='top'
            elif loc=='BOTTOM' and 'POLYGON' not in a:
                exp=[to_global((x,y,0.0)) for x,y in s['poly']]; kind='bottom'
            elif 'POLYGON' in a and loc in (None,'TOP'):
                pa=polys[a['POLYGON']]['attrs']; pts=[]; i=1
                while 'V%d'%i in pa:
                    x,y=[float(v) for v in pa['V%d'%i].strip('() ').split(',')]; pts.append((x,y)); i+=1
                wx,wy,wz=num(a,'X'),num(a,'Y'),num(a,'Z'); waz=num(a,'AZIMUTH'); tilt=num(a,'TILT', 0.0 if (b['type']=='ROOF' or loc=='TOP') else 90.0)
                # wall local: normal azimuth waz clockwise from space Y; 52016 az = 180 - waz
                M = Rz(180.0-waz) @ Rx(tilt)
                exp=[to_global(np.array([wx,wy,wz]) + M @ np.array([x,y,0.0])) for x,y in pts]; kind='polygon'
            if exp is None: 
                res.setdefault('skipped',[]).append((b['name'],loc,'POLYGON' in a)); continue
            mw=walls.get(b['name'])
            if not mw: continue
            got=model_wall_points(mw)
            d=match(exp,got)
            res.setdefault(kind,[]).append((d,b['name']))
    for k,v in res.items():
        if k=='skipped': print('skipped',len(v), v[:5]); continue
        v.sort(reverse=True)
        print(k, 'n=',len(v), 'maxdist=',v[0], 'n>1cm=',sum(1 for d,_ in v if d>0.01))
    print('gdev',gdev)

main(sys.argv[1], sys.argv[2])
