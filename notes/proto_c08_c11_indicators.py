import json, math, sys
sys.path.insert(0,'/verif/notes')
src=open('/verif/notes/proto_c06_uvalues.py').read().split("for f in sys.argv[1:]:")[0]
exec(src)
def close(a,b,rel=1e-4,ab=1e-3):
    if a is None or b is None: return a is None and b is None
    return abs(a-b)<=ab+rel*max(abs(a),abs(b))
def sector(az):
    az%=360.0
    if az<18: return 'S'
    if az<69: return 'SE'
    if az<120: return 'E'
    if az<157.5: return 'NE'
    if az<202.5: return 'N'
    if az<240: return 'NW'
    if az<291: return 'W'
    if az<342: return 'SW'
    return 'S'
def year_days(m,yid):
    ys={y['id']:y for y in m.j.get('schedules',{}).get('year',[])}
    ws={w['id']:w for w in m.j.get('schedules',{}).get('week',[])}
    y=ys.get(yid)
    if not y: return []
    out=[]; d=0
    for wid,cnt in y.get('values',[]):
        wk=ws.get(wid); days=[]
        if wk:
            for did,c in wk.get('values',[]): days+= [did]*c
        for k in range(cnt):
            if days: out.append(days[(d+k)%len(days)] if len(days)==7 else days[(d%7+k)%len(days)])
        d+=cnt
    return out
def check(f):
    j=json.load(open(f)); m=M(j); ind=json.load(open('/tmp/probe3/'+f.split('/')[-1]+'.ind.json')); rad=json.load(open('/tmp/probe3/'+f.split('/')[-1]+'.rad.json'))
    P=ind['props']; G=P['global']; errs=[]
    sp=m.spaces
    inside=lambda sid: sid in sp and sp[sid].get('inside_tenv',True)
    hab=lambda sid: sp[sid].get('kind','CONDITIONED')!='UNINHABITED'
    mult=lambda sid: sp[sid].get('multiplier',1.0) if sid in sp else 1.0
    a_ref=r2(sum(m.sarea(s)*mult(s) for s in sp if inside(s) and hab(s)))
    vg=r2(sum(m.sarea(s)*sp[s]['height']*mult(s) for s in sp if inside(s)))
    vn=r2(sum(m.sarea(s)*m.hnet(s)*mult(s) for s in sp if inside(s)))
    def tenv(w):
        a=inside(w['space']); b=inside(w.get('next_to')) if w.get('next_to') else False
        return a if w['bounds']!='INTERIOR' else (a!=b)
    exposed=sum(m.warea(w)*mult(w['space']) for w in m.walls if tenv(w) and w['bounds'] in('EXTERIOR','GROUND'))
    comp=vg/exposed if exposed else 0.0
    for name,ref,got in [('a_ref',a_ref,G['a_ref']),('vg',vg,G['vol_env_gross']),('vn',vn,G['vol_env_net']),('comp',comp,G['compactness']),('area_ref',a_ref,ind['area_ref'])]:
        if not close(ref,got,1e-4,0.011): errs.append((name,ref,got))
    if not close(m.gvr(), G['global_ventilation_rate'] if G['global_ventilation_rate'] is not None else float('inf'),1e-4): errs.append(('gvr',m.gvr(),G['global_ventilation_rate']))
    for w in m.walls:
        wp=P['walls'][w['id']]
        if wp['is_tenv']!=tenv(w): errs.append(('is_tenv',w['name'],wp['is_tenv'],tenv(w)))
        if not close(wp['area_net'],m.wnet(w),1e-5,1e-3): errs.append(('area_net',w['name']))
        if wp['tilt']!=tclass(w['geometry']['tilt']): errs.append(('tilt',w['name']))
        o = sector(w['geometry']['azimuth']) if tclass(w['geometry']['tilt'])=='SIDE' else 'HZ'
        if wp['orientation']!=o: errs.append(('orient',w['name'],wp['orientation'],o))
    # K
    wallsby={w['id']:w for w in m.walls}
    ov=j.get('overrides',{})
    A=AU=0.0; cat={'walls':[0,0],'roofs':[0,0],'floors':[0,0],'ground':[0,0],'windows':[0,0]}
    for w in m.walls:
        if not(tenv(w) and w['bounds'] in('EXTERIOR','GROUND')): continue
        wp=P['walls'][w['id']]; mu=mult(w['space'])
        u=ov.get('walls',{}).get(w['id'],{}).get('u_value'); u=wp['u_value'] if u is None else u; u=5.7 if u is None else u
        a=mu*m.wnet(w)
        c='ground' if w['bounds']=='GROUND' else {'TOP':'roofs','BOTTOM':'floors','SIDE':'walls'}[tclass(w['geometry']['tilt'])]
        cat[c][0]+=a; cat[c][1]+=a*u
        for win in m.windows:
            if win['wall']!=w['id']: continue
            wu=ov.get('windows',{}).get(win['id'],{}).get('u_value')
            if wu is None: wu=P['windows'][win['id']]['u_value']
            if wu is None: wu=5.7
            aw=mu*win['geometry']['width']*win['geometry']['height']
            cat['windows'][0]+=aw; cat['windows'][1]+=aw*wu
    L=PL=0.0
    for tb in j.get('thermal_bridges',[]):
        l=tb.get('l',0.0)
        if l<0: continue
        L+=l; PL+=l*tb.get('psi',0.0)
    A=sum(v[0] for v in cat.values()); AU=sum(v[1] for v in cat.values())+PL
    K=AU/A if A>=0.01 else 0.0
    Kd=ind['K_data']
    if not close(K,Kd['K'],1e-4,1e-4): errs.append(('K',K,Kd['K']))
    for c in cat:
        if not close(cat[c][0],Kd[c]['a'],1e-4,1e-2) or not close(cat[c][1],Kd[c]['au'],1e-4,1e-2): errs.append(('Kcat',c,cat[c],Kd[c]))
    if not close(L,Kd['summary']['tbs_l'],1e-4,1e-2) or not close(PL,Kd['summary']['tbs_psil'],1e-4,1e-2): errs.append(('tbs',L,PL,Kd['summary']))
    # n50
    Ao=Ah=ChAh=0.0
    for w in m.walls:
        if not(tenv(w) and w['bounds']=='EXTERIOR'): continue
        mu=mult(w['space']); Ao+=mu*m.wnet(w)
        for win in m.windows:
            if win['wall']!=w['id']: continue
            a=win['geometry']['width']*win['geometry']['height']*mu
            c=m.winc.get(win['cons']); ch=c['c_100'] if c else 100.0
            Ah+=a; ChAh+=a*ch
    Co=16.0 if m.meta.get('is_new_building',True) else 29.0
    n50ref=0.629*(Co*Ao+ChAh)/vn if vn>0.001 else 0.0
    N=ind['n50_data']
    test=m.meta.get('n50_test_ach')
    if not close(n50ref,N['n50_ref'],1e-4,1e-4): errs.append(('n50ref',n50ref,N['n50_ref']))
    if test is not None:
        wc=((test*vn)/0.629-ChAh)/Ao if Ao>0.001 else Co
        if not close(test,N['n50']) or not close(wc,N['walls_c'],1e-4,1e-3): errs.append(('n50test',test,wc,N))
    else:
        if not close(n50ref,N['n50']) or not close(Co,N['walls_c']): errs.append(('n50',N))
    # qsoljul
    Q=0.0; awp=0.0
    for win in m.windows:
        w=wallsby.get(win['wall'])
        if not w or not(tenv(w) and w['bounds'] in('EXTERIOR','GROUND')): continue
        wp=P['windows'][win['id']]
        o = sector(w['geometry']['azimuth']) if tclass(w['geometry']['tilt'])=='SIDE' else 'HZ'
        H=rad[o]
        c=m.winc.get(win['cons'])
        if c:
            g=m.gl.get(c['glass']); gwi=r2(g['g_gln']*0.9) if g else 0.77
            gsh=r2(c['g_glshwi']) if c.get('g_glshwi') is not None else gwi; ff=c['f_f']
        else: gsh,ff=0.77,0.20
        fs=ov.get('windows',{}).get(win['id'],{}).get('f_shobst')
        if fs is None: fs=wp['f_shobst']
        if fs is None: fs=1.0
        a=win['geometry']['width']*win['geometry']['height']*mult(w['space'])
        Q+=fs*gsh*(1-ff)*a*H; awp+=a
    q=Q/a_ref if a_ref else float('nan')
    S=ind['q_soljul_data']
    if not close(q,S['q_soljul'],1e-4,1e-4) or not close(awp,S['a_wp'],1e-4,1e-3): errs.append(('qsoljul',q,Q,awp,S['q_soljul'],S['Q_soljul'],S['a_wp']))
    # occupancy
    loads={l['id']:l for l in j.get('loads',[])}
    days={d['id']:d for d in j.get('schedules',{}).get('day',[])}
    occ=[s for s in sp if inside(s) and hab(s) and sp[s].get('loads')]
    hours=set()
    for s in occ:
        l=loads.get(sp[s]['loads'])
        if not l or not l.get('people_schedule'): continue
        yd=year_days(m,l['people_schedule'])
        for di,did in enumerate(yd):
            for h,v in enumerate(days[did]['values']):
                if abs(v)>100*1.1920929e-07: hours.add((di,h))
    if len(hours)!=G['occ_spaces_hours_in_use']: errs.append(('hours',len(hours),G['occ_spaces_hours_in_use']))
    def avg(yid):
        if not yid: return 0.0
        yd=year_days(m,yid)
        return sum(sum(days[d]['values'])/len(days[d]['values']) for d in yd)/len(yd) if yd else float('nan')
    tl=ta=0.0
    for s in occ:
        l=loads.get(sp[s]['loads']); la=0.0
        if l: la=avg(l.get('people_schedule'))*l['people_sensible']+avg(l.get('lighting_schedule'))*l['lighting']+avg(l.get('equipment_schedule'))*l['equipment']
        a=m.sarea(s)*mult(s); tl+=la*a; ta+=a
    al=tl/ta if ta>1e-7 else 0.0
    if not close(al,G['occ_spaces_average_load'],1e-4,1e-4): errs.append(('avgload',al,G['occ_spaces_average_load']))
    print(f.split('/')[-1],'errors:',len(errs)); 
    for e in errs[:12]: print('   ',e)
for f in sys.argv[1:]: check(f)
