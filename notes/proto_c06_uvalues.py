import json, math, sys, itertools
RSI={'TOP':0.10,'SIDE':0.13,'BOTTOM':0.17}; RSE=0.04; LG=2.0; LINS=0.035; W=0.3
def tclass(t):
    t=t%360.0
    if t<=60: return 'TOP'
    if t<120: return 'SIDE'
    if t<240: return 'BOTTOM'
    if t<300: return 'SIDE'
    return 'TOP'
def parea(p):
    n=len(p)
    if n<2: return 0.0
    return abs(0.5*sum(p[i][0]*p[(i+1)%n][1]-p[i][1]*p[(i+1)%n][0] for i in range(n)))
def pperim(p):
    n=len(p)
    if n<2: return 0.0
    return sum(math.dist(p[i],p[(i+1)%n]) for i in range(n))
r2=lambda v: round(v*100)/100
class M:
    def __init__(s,j):
        s.j=j; s.spaces={x['id']:x for x in j.get('spaces',[])}
        s.walls=j.get('walls',[]); s.windows=j.get('windows',[])
        c=j.get('cons',{}); s.wc={x['id']:x for x in c.get('wallcons',[])}; s.mat={x['id']:x for x in c.get('materials',[])}
        s.winc={x['id']:x for x in c.get('wincons',[])}; s.gl={x['id']:x for x in c.get('glasses',[])}; s.fr={x['id']:x for x in c.get('frames',[])}
        s.meta=j.get('meta',{})
    def R(s,cid):
        c=s.wc.get(cid)
        if c is None: return None
        tot=0.0
        for l in c.get('layers',[]):
            m=s.mat.get(l['material'])
            if m is None: return None
            if 'conductivity' in m:
                if m['conductivity']>0: tot+=l['e']/m['conductivity']
                else: return None
            else: tot+=m['resistance']
        return tot
    def thick(s,cid):
        c=s.wc.get(cid)
        return 0.0 if c is None else round(sum(l['e'] for l in c.get('layers',[]))*1000)/1000
    def warea(s,w): return parea(w['geometry'].get('polygon',[]))
    def wnet(s,w): return r2(s.warea(w)-sum(x['geometry']['width']*x['geometry']['height'] for x in s.windows if x['wall']==w['id']))
    def sarea(s,sid): return sum(s.warea(w) for w in s.walls if w['space']==sid and tclass(w['geometry']['tilt'])=='BOTTOM')
    def hnet(s,sid):
        sp=s.spaces[sid]
        for w in s.walls:
            t=tclass(w['geometry']['tilt'])
            if (t=='TOP' and w['space']==sid) or (t=='BOTTOM' and w.get('next_to')==sid):
                return sp['height']-s.thick(w['cons'])
        return sp['height']
    def gvr(s):
        q=s.meta.get('global_ventilation_l_s')
        if q is None: return 0.0
        v=r2(sum(s.sarea(i)*s.hnet(i)*sp.get('multiplier',1.0) for i,sp in s.spaces.items() if sp.get('inside_tenv',True) and sp.get('kind','CONDITIONED')!='UNINHABITED'))
        return 3.6*q/v if v else float('inf')
    def winU(s,win):
        c=s.winc.get(win['cons'])
        if not c: return None
        g=s.gl.get(c['glass']); f=s.fr.get(c['frame'])
        if not g or not f: return None
        return (1+c['delta_u']/100)*(f['u_value']*c['f_f']+g['u_value']*(1-c['f_f']))
    def swalls(s,sid): return [w for w in s.walls if w['space']==sid or w.get('next_to')==sid]
    # ---- ground helpers
    def chardim(s,sid,dP=0.0,dB=0.0):
        sp=s.spaces[sid]; ws=s.swalls(sid)
        fl=[w for w in ws if w['space']==sid and tclass(w['geometry']['tilt'])=='BOTTOM' and w['bounds']=='GROUND']
        if not fl: return None
        A=s.warea(fl[0])
        if A<0.001: return 0.0
        tot=ext=0.0
        for w in ws:
            if tclass(w['geometry']['tilt'])!='SIDE': continue
            a=s.warea(w); tot+=a
            b=w['bounds']
            if b in('EXTERIOR','GROUND'): ext+=a
            elif b=='INTERIOR':
                nx=s.spaces.get(w.get('next_to'))
                if nx and sp.get('kind','CONDITIONED')=='CONDITIONED' and nx.get('kind','CONDITIONED')!='CONDITIONED': ext+=a
        P=0.0 if tot<0.001 else pperim(fl[0]['geometry']['polygon'])*ext/tot + dP
        P=max(P,0.01)
        return A/(0.5*P)+dB
    def d_t(s,sid):
        sl=[w for w in s.swalls(sid) if tclass(w['geometry']['tilt'])=='BOTTOM' and w['bounds']=='GROUND']
        if not sl: return None
        e=a=0.0
        for w in sl:
            ar=s.warea(w); a+=ar
            r=s.R(w['cons']) or 0.0
            e+=ar*(W+LG*(0.17+r+RSE))
        return e/a
    def psi(s,dt,dpsi=0.0):
        d1=s.meta.get('rn_perim_insulation',0.0)*(LG-LINS); D=s.meta.get('d_perim_insulation',0.0)
        return -LG/math.pi*(math.log(1+D/dt)-math.log(1+D/(dt+d1)))+dpsi
    def U(s,w,pert=None):
        """returns (lo,hi) or None"""
        vals=[]
        combos=itertools.product((-1,0,1),repeat=4)
        for c in combos:
            v=s.U1(w,c)
            if v is None: return None
            if v=='ANY': return 'ANY'
            vals.append(v)
        return (min(vals),max(vals))
    def Uext(s,w,d=0.0):
        r=s.R(w['cons'])
        if r is None: return None
        return 1/(r+RSI[tclass(w['geometry']['tilt'])]+RSE)+d*0.005
    def U1(s,w,c):
        b=w['bounds']; t=tclass(w['geometry']['tilt'])
        if w['cons'] not in s.wc: return None
        r=s.R(w['cons'])
        if b in('EXTERIOR','ADIABATIC'):
            return None if r is None else 1/(r+RSI[t]+RSE)
        if b=='GROUND':
            Uw=s.Uext(w,c[0])
            if Uw is None: return None
            sp=s.spaces.get(w['space'])
            if sp is None: return None
            dt=s.d_t(w['space'])
            if dt is None: return None
            z=max(-sp.get('z',0.0),0.0)
            if t=='TOP': return s.Uext(w,0)
            if t=='BOTTOM':
                B=s.chardim(w['space'],c[1]*0.005,c[2]*0.005) or 0.0
                ps=s.psi(dt,c[3]*0.0005)
                Bl=dt+0.5*z
                if Bl<B: Ubf=(2*LG/(math.pi*B+Bl))*math.log(1+math.pi*B/Bl)
                else: Ubf=LG/(0.457*B+Bl)
                return Ubf+2*ps/B
            hn=s.hnet(w['space'])
            if z<0.01: return s.Uext(w,0)
            dw=LG/Uw; dtt=min(dw,dt)
            Ubw=(2*LG/(math.pi*z))*(1+0.5*dtt/(dtt+z))*math.log(z/dw+1)+c[1]*0.005
            h=hn-z if hn>z else 0.0
            return Ubw if abs(h)<1e-7 else (z*Ubw+h*Uw)/hn
        # INTERIOR
        sp=s.spaces.get(w['space'])
        if sp is None: return None
        if w.get('next_to') is None:
            return None if r is None else 1/(r+2*RSI[t])
        nx=s.spaces.get(w['next_to'])
        if nx is None: return None
        if r is None: return None
        tc=sp.get('kind','CONDITIONED')=='CONDITIONED'; nc=nx.get('kind','CONDITIONED')=='CONDITIONED'
        if tc==nc: return 'ANY' if False else 1/(r+2*0.13)
        if (tc and t=='BOTTOM') or (nc and t=='TOP'): rs=0.17
        elif (tc and t=='TOP') or (nc and t=='BOTTOM'): rs=0.10
        else: rs=0.13
        Rf=r+2*rs
        us_id=w['next_to'] if tc else w['space']; us=s.spaces[us_id]
        UA=0.0
        for ww in s.swalls(us_id):
            if ww['bounds'] not in('GROUND','EXTERIOR'): continue
            iv=s.U1(ww,(c[0],c[1],c[2],c[3]))
            if iv is None: continue
            iv=iv+c[0]*0 # nominal
            wa=0.0
            for win in s.windows:
                if win['wall']==ww['id']:
                    u=s.winU(win)
                    if u is not None: wa+=win['geometry']['width']*win['geometry']['height']*r2(u)
            UA+=s.wnet(ww)*(iv+c[0]*0.005)+wa
        vol=s.sarea(us_id)*s.hnet(us_id)
        n=us.get('n_v'); n=s.gvr() if n is None else n
        H=UA+0.33*vol*n
        Ai=s.warea(w)
        if H==0: return 0.0
        return 1/(Rf+Ai/H)
for f in sys.argv[1:]:
    j=json.load(open(f)); m=M(j); imp=json.load(open('/tmp/probe2/'+f.split('/')[-1]+'.u.json'))
    n=bad=0; worst=0
    kinds={}
    for w in m.walls:
        iu=imp['walls'][w['id']]['u']; ref=m.U(w)
        k=(w['bounds'],tclass(w['geometry']['tilt'])); kinds[k]=kinds.get(k,0)+1
        n+=1
        if ref is None or iu is None:
            if (ref is None)!=(iu is None): bad+=1; print('  NONE-MISMATCH',w['name'],k,iu,ref)
            continue
        lo,hi=ref
        if not(lo-0.0051<=iu<=hi+0.0051):
            bad+=1; print('  MISMATCH',w['name'],k,'impl',iu,'ref',round(lo,4),round(hi,4))
        worst=max(worst,hi-lo)
    print(f.split('/')[-1],'walls',n,'bad',bad,'max interval width',round(worst,4),'gvr impl',imp['gvr'],'ref',m.gvr())
    for sid,sp in imp['spaces'].items():
        c=m.chardim(sid)
        if (c is None)!=(sp['chardim'] is None) or (c is not None and abs(c-sp['chardim'])>0.02+1e-3*c): print('  CHARDIM',sp['name'],sp['chardim'],c)
        if abs(m.sarea(sid)-sp['area'])>1e-3 or abs(m.hnet(sid)-sp['hnet'])>1e-3: print('  AREA/HNET',sp['name'],sp,m.sarea(sid),m.hnet(sid))
