#!/usr/bin/env python3
import json, sys
pid = sys.argv[1]
variant = sys.argv[2] if len(sys.argv) > 2 else "a"
for l in open('/verif/properties.jsonl'):
    p = json.loads(l)
    if p['id'] == pid:
        break
wt = f"/tmp/wt/{pid}{variant}"
print(f"""You are helping to evaluate a verification effort by playing the role of a developer who introduces a subtle regression.

Work ONLY inside the scratch git worktree {wt} (a checkout of the Rust workspace pachi/cteenergymodel: crates hulc, bemodel, climate, hulc2model, hulc_tests, convertdb). Do not read or write anything under /repo or /verif. The machine is offline: always pass --offline to cargo; use `CARGO_TARGET_DIR={wt}/target`. The existing test suite is run with `cd {wt} && cargo test --workspace --no-fail-fast --offline` (39 tests + 1 doctest, all pass on the unchanged tree; first build takes ~2 minutes).

PROPERTY ({p['id']}: {p['title']})
Statement: {p['statement']}
Quantified over: {p['quantifier']['text']}
Files the property is anchored in: {', '.join(p['anchors']['files'])}

TASK
1. Read the relevant code, then make ONE realistic change to the library source (not to tests, not to test data) that BREAKS this property while (a) the workspace still compiles and (b) the whole existing test suite still passes. Prefer the kind of slip a maintainer could plausibly make (refactor, off-by-one, wrong branch, swapped operands, changed constant in one code path, dropped case, unit/sign convention), and prefer a change that needs something SPECIFIC to manifest — an unusual but legitimate input, a particular combination of element kinds, a multi-step sequence, a boundary value, or two cooperating sites that each look fine alone — rather than one that every ordinary use would expose at once. Do not add new public API that a checker would have to call; the break must be observable through the existing public behaviour described in the statement.
2. Write a demonstration: a small Rust integration test file (e.g. {wt}/bemodel/tests/demo_{pid.lower()}.rs or in the crate that fits) or a tiny program that FAILS with your change and PASSES without it. Verify both directions yourself (use `git stash` / `git stash pop` or `git diff > patch; git checkout`), and verify the existing suite passes WITH your change.
3. Produce the output directory {wt}.out/ containing: `patch.diff` (output of `git diff` for the library change ONLY, without the demonstration file, relative to the worktree root so that `git apply patch.diff` works at the repository root), the demonstration file(s) under `demo/` with a note of where they must be placed, and `meta.json` with keys: property, summary (what the change does), needs (what specific input/sequence is needed for it to manifest), files_changed, how_verified (the commands you ran and their results, including test-suite pass counts with the change), demo_fails_with_change (true/false), demo_passes_without_change (true/false), suite_passes_with_change (true/false).
4. Leave the worktree itself with the library change REVERTED (git checkout -- . ; remove untracked demo files) when you are done, so that only {wt}.out/ carries your result.

Your final message should be a short summary: what you changed, what it needs to manifest, and the three verification booleans.""")
