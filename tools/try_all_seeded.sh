#!/bin/bash
# usage: try_all_seeded.sh [tier]   applies every confirmed seeded change in turn, runs the check of its property, undoes it.
# Prints one line per change; a change that is not reported is listed as MISSED.
T=${1:-quick}
cd /verif
for d in seeded/C??*; do
  n=$(basename $d); P=${n:0:3}
  # a change whose breakage belongs to another property's check names it in seeded/<id>/check_with
  [ -f $d/check_with ] && P=$(cat $d/check_with)
  [ -f $d/patch.diff ] || continue
  r=$(tools/try_seeded.sh $n $P $T 2>&1)
  rc=$(echo "$r" | grep -o "exit=[0-9]*" | tail -1)
  sig=$(echo "$r" | grep -m1 "signature:" | sed 's/ *signature: //' | cut -c1-110)
  if [ "$rc" = "exit=1" ]; then echo "$n caught  $sig"; else echo "$n MISSED ($rc) $(echo "$r" | tail -2 | head -1 | cut -c1-100)"; fi
done
git -C /repo status --short | grep -v Cargo.lock
