#!/usr/bin/env python3
"""Regenerates /verif/MANIFEST.json from the table below (kept here so that the manifest
stays valid and consistent with what ./check can actually run)."""
import json, os, subprocess
HERE = os.path.dirname(os.path.dirname(os.path.abspath(__file__)))
props = [json.loads(l)["id"] for l in open(os.path.join(HERE, "properties.jsonl"))]

# id -> (category, technique, level text, level note, design ref)
CLAIMS = {
 "C01": ("exploration", "process-level monitor (spawned CLI binaries, byte-exact stdout/stderr/exit capture, JSON stream oracle) + in-process fd-1 capture over generated system sections (every kind) + export/load differential against the library model under edge values",
         "hulc2model and thor are run as processes on the 12 shipped and on harness-written project directories x {default, --use-extra} x RUST_LOG settings; stdout must be exactly one JSON value that loads to the library's model (field-complete Debug equality); directories without project must exit non-zero without JSON; bytes reaching fd 1 during library calls are counted in-process. Held on the runs observed.",
         "trusted: serde_json's stream deserialiser as JSON oracle, the harness's printers; binaries rebuilt from /repo by ./check (dev profile; thorough also release)", "DESIGN.md §5 C01"),
 "C02": ("exploration", "invariant monitor (own closure walk over every converted model) under reference-breaking text edits, re-spelled names and generated system sections; panic-site capture",
         "Every shipped and generated project, and each of them with one referenced definition renamed/removed in the text, is converted; any Ok(model) must pass the harness's own 14-link closure walk and bemodel::check; panics are violations. Held on the conversions observed.",
         "trusted: the harness's link walker and independent BDL block reader", "DESIGN.md §5 C02"),
 "C03": ("exploration", "reference-model monitor (DOE-2 nesting in f64 from the source text via an independent reader) + metamorphic turn relation",
         "Corner points of every wall, window and shade of every convertible real project and of generated buildings (turned and offset spaces, own-polygon elements, odd storey heights) are compared with points computed from the text; each project is re-converted with an angle added to its deviation. Held on the projects observed (max deviation on the corpus: 2 mm).",
         "trusted: the DOE-2 nesting convention as documented in wall_geometry's header and BDL topics; the harness's reader", "DESIGN.md §5 C03"),
 "C04": ("exploration", "differential round-trip monitor with a per-field default/non-default coverage matrix",
         "Generated models force each of 62 defaultable fields into both states (the run fails if a field is not seen in both); as_json/from_json must preserve every field (Debug text), re-serialise identically, omit default sections; shipped files must re-serialise to the same JSON value. Held on the models observed.",
         "trusted: derived Debug prints every field; -0.0 == 0.0", "DESIGN.md §5 C04"),
 "C05": ("exploration", "differential monitors: repeat / fresh process / 16 threads behind a barrier / id locality / A-before-B history pairs / table fingerprints / reference pairs; thorough adds a Miri run (tree borrows, 8 scheduler seeds) of a 2-thread workload",
         "Byte-identical export across repeats, fresh processes (varied environment) and threads; ids unchanged when unrelated definitions are appended; indicators of B independent of A computed before (incl. variants sharing ids); climate tables unchanged; 6 reference pairs equal as JSON values. Held on the schedules and histories observed; the number of distinct thread interleavings seen is reported.",
         "trusted: md5 as fingerprint; the helper process links the same library", "DESIGN.md §5 C05"),
 "C06": ("exploration", "reference-model monitor (interval-valued f64 re-computation of EN ISO 6946/13370/13789) + metamorphic monotonicity",
         "Every wall of generated models (all formula branches, floor on branch coverage) and of all real models is compared with an interval reference that propagates the documented intermediate roundings; added/thickened layers must not raise U; missing constructions/materials give None. Held on the walls observed.",
         "trusted: the harness's f64 formulas; the code base's documented modelling choices for P, B', d_t are the definition", "DESIGN.md §5 C06"),
 "C07": ("exploration", "reference-model monitor over generated window constructions (closed formula oracle at the API boundary)",
         "Every generated window construction (frame fraction 0..1, dU 0..50, present/nil/dangling glazing and frame, optional shading factor) is observed through WinCons::u_value/g_glwi/g_glshwi, EnergyIndicators.props.wincons and K_data and compared with the closed formulas; held on the executions observed, nothing more.",
         "trusted: the harness's f64 formulas; 2-decimal rounding admits +-0.0051", "DESIGN.md §5 C07"),
 "C08": ("exploration", "reference-model monitor (own aggregation over own envelope rule) + metamorphic reorder/rename/re-id relation",
         "K_data of generated (incl. fully glazed walls, overrides, default U, all bridge kinds) and real models is compared field by field with the harness's own sums; reordering and re-identifying elements must not change K. Held on the models observed.",
         "per-element U as reported in props (judged by C06/C07)", "DESIGN.md §5 C08"),
 "C09": ("exploration", "reference-model monitor (own DB-HE formula, identity check for the blower-door branch)",
         "n50_data of generated (with/without test value, missing window constructions, zero volume / zero wall area) and real models against the harness's own formula. Held on the models observed.",
         "net areas as reported (checked in C08); V checked against own net volume", "DESIGN.md §5 C09"),
 "C10": ("exploration", "reference-model monitor (own sum, own sector table, table lookup by the harness) over all 32 zones",
         "q_soljul_data (totals, means, per-orientation breakdown, finiteness without windows / without reference area) of generated models x 32 zones and real models. Held on the models observed.",
         "F_sh,obst and g_gl;sh;wi per element as reported (judged by C12/C07)", "DESIGN.md §5 C10"),
 "C11": ("exploration", "reference-model monitor for the aggregates + metamorphic scaling + sweep of the angle classifiers over every f32 in [-720,1080] (thorough)",
         "A_ref, volumes, compactness, envelope membership, ventilation rate used vs reported on generated and real models; scaling relation; Tilt/Orientation classifiers compared with the exact residue mod 360 and with every representable angle+360k for all 2.29e9 floats in range (thorough; quick = stride over the same ordered space), parser vs model for every tilt in [0,360].",
         "2-decimal aggregates admit +-0.0056; 2 ulp(360) ambiguity band at class boundaries", "DESIGN.md §5 C11"),
 "C12": ("exploration", "reference-model monitor (exact f64 ray casting of the implementation's own sample points against first-principles obstacles and reveal quads) + metamorphic monotonicity; BVH path counters from the cfg-guarded hook",
         "Every window's f_shobst of generated (<=30 and >30 obstacles, roofs, set-back windows, elements without position) and real models against the exact reference; adding an obstacle never raises a factor; enclosed window = diffuse share; unobstructed >= 0.97. Held on the windows observed; evidence reports which BVH build paths were driven.",
         "plane irradiances from climate::radiation_for_surface (C20); sample points are the implementation's own", "DESIGN.md §5 C12"),
 "C13": ("exploration", "differential monitor (BVH vs exhaustive loop, instrumented element with a logical step budget) + exact-geometry reference for ray/polygon (random poses and lattice polygons with crossings level with a corner), bounding boxes and reveal surfaces",
         "Obstacle sets of size 0..200 in 6 families x leaf sizes x 64 rays; real occluders of generated models; 3..12-corner polygons in random poses against an exact winding-number test; reveal quads of set-back windows on walls of any pose. Held on the sets, poses and rays observed.",
         "1 mm / grazing ambiguity band; non-termination decided on aabb() call counts and the hook's node bound, not on time", "DESIGN.md §5 C13"),
 "C14": ("exploration", "totality monitor: catch_unwind with panic-site capture, CPU-budget and node-bound hang detection, poisoned-table probe, periodic baseline recomputation, finiteness scan",
         "1..3 structural JSON edits of shipped/converted/generated models, editor-style growth from the empty model, special degenerate families; each computed in a monitored worker; for inputs the harness finds closed and sane every number must be finite and the result must load back. Held on the models observed.",
         "saneness decided by the harness; wall-clock watchdog firings are inconclusive, CPU-budget overruns are hang verdicts", "DESIGN.md §5 C14"),
 "C15": ("exploration", "reference-model monitor (expected multiset of warning ids from the harness's own link walk)",
         "Generated models with random subsets of the five link kinds broken (nil or absent ids, also on non-interior walls) and bridge lengths negated, closed models and real models; check() must report exactly those, not modify the model, and equal energy_indicators().warnings. Held on the models observed.",
         "links outside the statement's list are left intact", "DESIGN.md §5 C15"),
 "C16": ("exploration", "reference-model monitor (own reachability filter, order included) + idempotence + indicator invariance",
         "Generated models with unused items of every kind, one-call removable chains, spaces known only as neighbours, tiny bridge lengths, and real models; id lists after purge_unused against the reference; purge twice = once; no new broken link; A_ref, volumes, K, n50, q_sol;jul unchanged. Held on the models observed.",
         "override entries of removed elements are outside the statement", "DESIGN.md §5 C16"),
 "C17": ("exploration", "reference-model monitor (own calendar, own weekday expansion, own occupancy/load means)",
         "Yearly schedule expansion; conversion of harness-printed SCHEDULE-PD for all 365 end dates and random date lists, WEEK-SCHEDULE-PD incl. weeks where Monday's schedule reappears, DAY-SCHEDULE-PD with 24/1 values; occupied hours and mean load on generated and real models. Held on the schedules and models observed.",
         "weekly schedules not covering 7 days are outside the statement", "DESIGN.md §5 C17"),
 "C18": ("exploration", "print-parse monitor (abstract documents -> random layouts -> parsers) + typed-element comparison incl. legacy forms with attributes left out + layout invariance on the 68 real files",
         "Random block documents and whole buildings printed in random layouts must be recovered attribute by attribute by build_blocks and field by field by Data::new; real files re-printed from their parsed blocks must parse to the same Data; KyG (old/new layout, both decimal separators) and tbl printers against their parsers. Held on the documents observed.",
         "grammar = what HULC/LIDER emit (quoted names, no '..' in names, value on the key's line)", "DESIGN.md §5 C18"),
 "C19": ("fault_enumeration", "fault enumeration: every single-edit corruption of the shipped corpus addressed by (file, line, edit kind) + sampled single edits of generated projects with system sections; panic-site capture; CPU-budget hang verdicts",
         "Thorough enumerates every line of every shipped project/result file x 9 edit kinds (exhaustive over that finite space); quick takes a seeded slice. Each damaged file must be converted or rejected with an error; panics (deduplicated by file+function+message class) and CPU-budget overruns are violations.",
         "single edits only; catalogue parsed once per worker", "DESIGN.md §5 C19"),
 "C20": ("exploration", "reference-model monitor (spherical astronomy, own calendar) + radiation identities over the shipped weather file + table consistency",
         "All 365 dates; sun position on a latitude x declination x hour-angle grid (quick 1 degree, thorough 0.5 degree) as great-circle error; incidence angles against the model's own normal; horizontal/downward identities over all 8760 hours and random inputs; 32 zones x 9 orientations x 12 months and 14 July rows; D3 tables against the radiation model over zonaD3.met. Held on the points observed.",
         "hour angle positive before noon, azimuth from south east-positive; tables of the 31 zones without weather file checked for presence/shape/sign only", "DESIGN.md §5 C20"),
}
NOT_BUILT = "check not built yet (framework phase in progress); it will be claimed once its monitor exists"

def hook_commits():
    try:
        out = subprocess.check_output(["git", "-C", "/repo", "log", "--format=%H %s"], text=True)
        return [l.split()[0] for l in out.splitlines() if "verif hook" in l]
    except Exception:
        return []

checks = []
for pid in props:
    if pid in CLAIMS:
        cat, tech, text, note, ref = CLAIMS[pid]
        checks.append({
            "property_id": pid,
            "quick_cmd": f"./check {pid} quick",
            "thorough_cmd": f"./check {pid} thorough",
            "evidence_file": f"/verif/evidence/{pid}.json",
            "replay_cmd_template": f"./check {pid} quick --replay {{path}}",
            "engine": "cteverif",
            "level_claimed": {"category": cat, "text": text, "design_ref": ref},
            "level_note": note,
            "technique": tech,
        })
manifest = {
    "version": 1,
    "setup_cmd": "./setup.sh",
    "hooks": {
        "guard": "--cfg pachi_cteenergymodel_verif",
        "enable": "RUSTFLAGS=\"--cfg pachi_cteenergymodel_verif\" cargo build --release (done by ./check for the harness crate, whose path dependencies are /repo/{hulc,bemodel,climate,hulc2model})",
        "baseline_off_cmd": "cd /repo && cargo test --workspace --no-fail-fast --offline",
        "source_commits": hook_commits(),
        "add_only": True,
    },
    "engines": [{
        "name": "cteverif", "path": "/verif/harness",
        "serves_properties": [c["property_id"] for c in checks],
        "kind_free_text": "Rust harness: seeded workload generators, independent f64 reference models, differential and totality monitors, sharded worker processes with panic-site capture, fd-1 capture and watchdogs; observes the real code through its public API (+ one cfg-guarded BVH hook)",
    }],
    "checks": checks,
    "not_applicable": [{"property_id": p, "reason": NOT_BUILT} for p in props if p not in CLAIMS],
    "notes": "Runtime monitoring only. Exit 0 = held on everything explored; exit 1 + VIOLATION line = violation not listed in known_findings.json; exit 2 + HARNESS-ERROR = the run itself is not valid (build failure, nothing observed, coverage floor missed) and gives no verdict.",
}
json.dump(manifest, open(os.path.join(HERE, "MANIFEST.json"), "w"), indent=1)
print("claimed:", [c["property_id"] for c in checks])
