#!/usr/bin/env python3
"""Regenerates /verif/MANIFEST.json from the table below (kept here so that the manifest
stays valid and consistent with what ./check can actually run)."""
import json, os, subprocess
HERE = os.path.dirname(os.path.dirname(os.path.abspath(__file__)))
props = [json.loads(l)["id"] for l in open(os.path.join(HERE, "properties.jsonl"))]

# id -> (category, technique, level text, level note, design ref)
CLAIMS = {
 "C07": ("exploration", "reference-model monitor over generated window constructions (closed formula oracle at the API boundary)",
         "Every generated window construction (frame fraction 0..1, dU 0..50, present/nil/dangling glazing and frame, optional shading factor) is observed through WinCons::u_value/g_glwi/g_glshwi, EnergyIndicators.props.wincons and K_data and compared with the closed formulas; held on the executions observed, nothing more.",
         "trusted: the harness's f64 formulas; 2-decimal rounding admits +-0.0051", "DESIGN.md §5 C07"),
}
NOT_BUILT = "check not built yet (framework phase in progress); it will be claimed once its monitor exists"

def hook_commits():
    try:
        out = subprocess.check_output(["git", "-C", "/repo", "log", "--format=%H %s"], text=True)
        return [l.split()[0] for l in out.splitlines() if "verif hook" in l]
    except Exception:
        return []

checks = []
for pid in props:
    if pid in CLAIMS:
        cat, tech, text, note, ref = CLAIMS[pid]
        checks.append({
            "property_id": pid,
            "quick_cmd": f"./check {pid} quick",
            "thorough_cmd": f"./check {pid} thorough",
            "evidence_file": f"/verif/evidence/{pid}.json",
            "replay_cmd_template": f"./check {pid} quick --replay {{path}}",
            "engine": "cteverif",
            "level_claimed": {"category": cat, "text": text, "design_ref": ref},
            "level_note": note,
            "technique": tech,
        })
manifest = {
    "version": 1,
    "setup_cmd": "./setup.sh",
    "hooks": {
        "guard": "--cfg pachi_cteenergymodel_verif",
        "enable": "RUSTFLAGS=\"--cfg pachi_cteenergymodel_verif\" cargo build --release (done by ./check for the harness crate, whose path dependencies are /repo/{hulc,bemodel,climate,hulc2model})",
        "baseline_off_cmd": "cd /repo && cargo test --workspace --no-fail-fast --offline",
        "source_commits": hook_commits(),
        "add_only": True,
    },
    "engines": [{
        "name": "cteverif", "path": "/verif/harness",
        "serves_properties": [c["property_id"] for c in checks],
        "kind_free_text": "Rust harness: seeded workload generators, independent f64 reference models, differential and totality monitors, sharded worker processes with panic-site capture, fd-1 capture and watchdogs; observes the real code through its public API (+ one cfg-guarded BVH hook)",
    }],
    "checks": checks,
    "not_applicable": [{"property_id": p, "reason": NOT_BUILT} for p in props if p not in CLAIMS],
    "notes": "Runtime monitoring only. Exit 0 = held on everything explored; exit 1 + VIOLATION line = violation not listed in known_findings.json; exit 2 + HARNESS-ERROR = the run itself is not valid (build failure, nothing observed, coverage floor missed) and gives no verdict.",
}
json.dump(manifest, open(os.path.join(HERE, "MANIFEST.json"), "w"), indent=1)
print("claimed:", [c["property_id"] for c in checks])
