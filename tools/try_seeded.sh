#!/bin/bash
# usage: try_seeded.sh <seeded-name> <PROP> [tier]   applies a seeded change to /repo, runs a check, undoes it
N=$1; P=$2; T=${3:-quick}
cd /repo && git apply /verif/seeded/$N/patch.diff || { echo "patch failed"; exit 2; }
cd /verif && ./check $P $T > /tmp/try_${N}_${P}.log 2>&1; rc=$?
cd /repo && git checkout -- . 
grep -E "^VIOLATION|signature|^\[C|HARNESS" /tmp/try_${N}_${P}.log | head -${4:-8} | cut -c1-260
echo "exit=$rc"
