#!/bin/bash
# usage: coverage.sh [tier] [IDs...]   which lines of /repo's library code do the checks' workloads reach?
# Builds the harness with source-based coverage (nightly, own target dir), runs the named checks (default: all, quick),
# merges the workers' profiles and writes a per-file summary and the list of never-executed functions to /verif/notes/.
# A tool for extending workloads; not one of the registered checks.
T=${1:-quick}; shift
IDS="$@"; [ -z "$IDS" ] && IDS=$(seq -f "C%02g" 1 20)
BIN=$(rustc +nightly --print sysroot)/lib/rustlib/x86_64-unknown-linux-gnu/bin
export CARGO_TARGET_DIR=/verif/target/cov CARGO_NET_OFFLINE=true
cd /verif/harness
RUSTFLAGS="--cfg pachi_cteenergymodel_verif -Cinstrument-coverage" cargo +nightly build --release --offline 2>&1 | grep -E "^error|Finished" 
PROF=/verif/target/cov/prof; rm -rf $PROF; mkdir -p $PROF
for P in $IDS; do
  [ "$P" = C01 ] && continue   # C01 mostly observes separately built binaries
  LLVM_PROFILE_FILE="$PROF/$P-%p-%m.profraw" VERIF_TIER=$T /verif/target/cov/release/cteverif check $P $T 2>&1 | grep "^\[C" | cut -c1-120
done
$BIN/llvm-profdata merge -sparse $PROF/*.profraw -o $PROF/all.profdata
mkdir -p /verif/notes
OUT=/verif/notes/coverage_$T.txt
$BIN/llvm-cov report /verif/target/cov/release/cteverif -instr-profile=$PROF/all.profdata --ignore-filename-regex='(\.cargo|rustc|/verif/)' 2>/dev/null > $OUT
echo "--- functions never executed ---" >> $OUT
$BIN/llvm-cov report /verif/target/cov/release/cteverif -instr-profile=$PROF/all.profdata --ignore-filename-regex='(\.cargo|rustc|/verif/)' -show-functions /repo/*/src/*.rs /repo/*/src/*/*.rs /repo/*/src/*/*/*.rs /repo/*/src/*/*/*/*.rs 2>/dev/null | awk '$NF=="0.00%" || /^File/ {print}' | rustfilt 2>/dev/null >> $OUT || true
rm -rf $PROF
tail -n +1 $OUT | head -70
