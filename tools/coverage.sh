#!/bin/bash
# usage: coverage.sh [tier] [IDs...]   which lines of /repo's library code do the checks' workloads reach?
# Builds the harness with source-based coverage (nightly, own target dir), runs the named checks (default: all, quick),
# merges the workers' profiles and writes a per-file summary and the list of never-executed functions to /verif/notes/.
# A tool for extending workloads; not one of the registered checks.
T=${1:-quick}; shift
IDS="$@"; [ -z "$IDS" ] && IDS=$(seq -f "C%02g" 1 20)
BIN=$(rustc +nightly --print sysroot)/lib/rustlib/x86_64-unknown-linux-gnu/bin
export CARGO_TARGET_DIR=/verif/target/cov CARGO_NET_OFFLINE=true
cd /verif/harness
RUSTFLAGS="--cfg pachi_cteenergymodel_verif -Cinstrument-coverage" cargo +nightly build --release --offline 2>&1 | grep -E "^error|Finished" 
PROF=/verif/target/cov/prof; rm -rf $PROF; mkdir -p $PROF
for P in $IDS; do
  [ "$P" = C01 ] && continue   # C01 mostly observes separately built binaries
  LLVM_PROFILE_FILE="$PROF/$P-%p-%m.profraw" VERIF_TIER=$T /verif/target/cov/release/cteverif check $P $T 2>&1 | grep "^\[C" | cut -c1-120
done
$BIN/llvm-profdata merge -sparse $PROF/*.profraw -o $PROF/all.profdata
mkdir -p /verif/notes
OUT=/verif/notes/coverage_$T.txt
$BIN/llvm-cov report /verif/target/cov/release/cteverif -instr-profile=$PROF/all.profdata --ignore-filename-regex='(\.cargo|rustc|/verif/)' 2>/dev/null > $OUT
$BIN/llvm-cov export -format=lcov /verif/target/cov/release/cteverif -instr-profile=$PROF/all.profdata --ignore-filename-regex='(\.cargo|rustc|/verif/)' 2>/dev/null > $PROF/all.lcov
python3 - $PROF/all.lcov >> $OUT <<'PY'
import sys,re
cur=None; un={}
for l in open(sys.argv[1]):
    l=l.strip()
    if l.startswith('SF:'): cur=l[3:]; un[cur]=[]
    elif l.startswith('DA:'):
        n,c=l[3:].split(',')[:2]
        if c=='0': un[cur].append(int(n))
print("\n--- lines never executed (file: ranges), test modules excluded ---")
for f in sorted(un):
    if not f.startswith('/repo/') or not un[f]: continue
    try: src=open(f,encoding='utf-8',errors='replace').read().split('\n')
    except Exception: continue
    # cut at the first #[cfg(test)]
    cut=next((i+1 for i,t in enumerate(src) if t.strip().startswith('#[cfg(test)]')),10**9)
    ls=[n for n in un[f] if n<cut]
    if not ls: continue
    r=[];a=b=ls[0]
    for n in ls[1:]:
        if n==b+1: b=n
        else: r.append((a,b)); a=b=n
    r.append((a,b))
    print(f"{f}: "+", ".join(f"{a}" if a==b else f"{a}-{b}" for a,b in r))
PY
rm -rf $PROF; find /repo -name "*.profraw" -delete
sed -n '/lines never executed/,$p' $OUT | cut -c1-400
