#!/bin/bash
# usage: confirm_seeded.sh <Cxx><variant>     e.g. C06a
# Confirms, in a scratch worktree outside /repo and /verif, that a sub-agent's change (1) compiles,
# (2) passes the existing test suite, (3) makes the demonstration fail, and that the demonstration
# passes without it. Then files it under /verif/seeded/<name>/.
set -u
NAME=$1
OUT=/tmp/wt/$NAME.out
WT=/tmp/wt/confirm_$NAME
export CARGO_TARGET_DIR=/tmp/wt/confirm_target
export CARGO_NET_OFFLINE=true
[ -f $OUT/patch.diff ] || { echo "no patch for $NAME"; exit 2; }
git -C /repo worktree add --detach $WT HEAD >/dev/null 2>&1 || { echo "worktree failed"; exit 2; }
cp /repo/Cargo.lock $WT/
cd $WT
LOG=$OUT/confirm.log
: > $LOG
# demo placement: first path-like mention of a tests/ file in the notes, else by crate guess
DEMO=$(ls $OUT/demo/*.rs 2>/dev/null | head -1)
# (a path naming the demo file itself wins; a test file that exists in the repository is never taken as the place)
PLACES=$(cat $OUT/demo/*.txt $OUT/demo/*.md $OUT/meta.json 2>/dev/null | grep -oE '(bemodel|hulc|hulc_tests|climate|hulc2model)/tests/[A-Za-z0-9_]+\.rs')
PLACE=$(echo "$PLACES" | grep -F "/$(basename $DEMO)" | head -1)
[ -z "$PLACE" ] && for c in $PLACES; do [ -e $WT/$c ] || { PLACE=$c; break; }; done
[ -z "$PLACE" ] && PLACE=bemodel/tests/$(basename $DEMO)
CRATE=$(echo $PLACE | cut -d/ -f1)
TESTNAME=$(basename $PLACE .rs)
echo "demo $DEMO -> $PLACE (crate $CRATE test $TESTNAME)" >> $LOG
mkdir -p $(dirname $WT/$PLACE); cp $DEMO $WT/$PLACE
# other demo support files (data) are copied next to it
for f in $OUT/demo/*; do case "$f" in *.rs|*.txt|*.md) ;; *) cp -r "$f" $WT/$(dirname $PLACE)/ ;; esac; done
# without the change
cargo test -p $CRATE --test $TESTNAME --offline >> $LOG 2>&1; R_WITHOUT=$?
git apply $OUT/patch.diff >> $LOG 2>&1 || { echo "patch does not apply" | tee -a $LOG; }
cargo test -p $CRATE --test $TESTNAME --offline >> $LOG 2>&1; R_WITH=$?
rm -f $WT/$PLACE
cargo test --workspace --no-fail-fast --offline > $OUT/suite.log 2>&1; R_SUITE=$?
PASSED=$(grep -E "^test result" $OUT/suite.log | awk '{s+=$4} END {print s}')
FAILED=$(grep -E "^test result" $OUT/suite.log | awk '{s+=$6} END {print s}')
echo "RESULT $NAME demo_without=$R_WITHOUT demo_with=$R_WITH suite_rc=$R_SUITE passed=$PASSED failed=$FAILED" | tee -a $LOG
cd /
git -C /repo worktree remove --force $WT
if [ $R_WITHOUT -eq 0 ] && [ $R_WITH -ne 0 ] && [ $R_SUITE -eq 0 ] && [ "$FAILED" = "0" ]; then
  D=/verif/seeded/$NAME
  mkdir -p $D/demo
  cp $OUT/patch.diff $D/
  cp -r $OUT/demo/* $D/demo/
  python3 - "$OUT/meta.json" "$D/meta.json" "$NAME" "$PLACE" "$PASSED" <<'PY'
import json,sys
src,dst,name,place,passed=sys.argv[1:6]
try: m=json.load(open(src))
except Exception as e: m={"note":"agent meta.json unreadable: %s"%e}
m["seeded_id"]=name
m["demo_placement"]=place
m["confirmed"]={"by":"tools/confirm_seeded.sh in a scratch worktree of /repo HEAD","demo_passes_without_change":True,"demo_fails_with_change":True,"suite_passes_with_change":True,"suite_tests_passed_with_change":int(passed)}
json.dump(m,open(dst,"w"),indent=1,ensure_ascii=False)
PY
  echo "CONFIRMED $NAME -> $D"
else
  echo "NOT CONFIRMED $NAME (see $LOG)"
fi
