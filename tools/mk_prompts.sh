#!/bin/bash
# usage: mk_prompts.sh <variant>   writes /tmp/wt/prompt_<ID><variant>.txt for all 20 properties; earlier variants' summaries
# (from /verif/seeded/<ID>*/meta.json) are quoted as "already done, do something different". Only the summary of the change is
# passed on (the agents see nothing of /verif's checks).
V=$1
mkdir -p /tmp/wt
for i in $(seq -w 1 20); do
  ID=C$i
  python3 /verif/tools/agent_prompt.py $ID $V > /tmp/wt/base.txt
  python3 - "$ID" "$V" <<'PY'
import json,glob,sys
pid,v=sys.argv[1],sys.argv[2]
base=open('/tmp/wt/base.txt').read()
notes=[]
for d in sorted(glob.glob(f'/verif/seeded/{pid}?')):
    try: m=json.load(open(d+'/meta.json'))
    except Exception: continue
    s=str(m.get('summary',''))[:900]
    if s: notes.append('  - '+s.replace('\n',' '))
if notes:
    note="NOTE: other developers already produced these changes for the same property, so do something DIFFERENT from all of them (another mechanism, another code path, another clause of the statement):\n"+"\n".join(notes)+"\n\n"
    base=base.replace("TASK\n",note+"TASK\n",1)
open(f'/tmp/wt/prompt_{pid}{v}.txt','w').write(base)
PY
done
rm -f /tmp/wt/base.txt
ls /tmp/wt/prompt_*$V.txt | wc -l
