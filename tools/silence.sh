#!/bin/bash
# usage: silence.sh <tier> <seed>...   runs every check at each seed, one after the other; prints one line per run
# and a final count of runs that were not silent (exit != 0 or a VIOLATION / HARNESS-ERROR line).
T=$1; shift
cd /verif
bad=0
for s in "$@"; do
  for i in $(seq -w 1 20); do
    P=C$i
    if [ "$T" = thorough ] && [ "$P" = C19 ] && [ -z "$WITH_C19" ]; then continue; fi
    t0=$(date +%s)
    VERIF_SEED=$s ./check $P $T > /tmp/silence_${P}_${T}_$s.log 2>&1; rc=$?
    t1=$(date +%s)
    v=$(grep -c "^VIOLATION\|^HARNESS-ERROR" /tmp/silence_${P}_${T}_$s.log)
    echo "$P $T seed=$s rc=$rc alarms=$v $((t1-t0))s $(grep -o 'inconclusive=[0-9]*' /tmp/silence_${P}_${T}_$s.log | tail -1)"
    if [ $rc -ne 0 ] || [ $v -ne 0 ]; then bad=$((bad+1)); fi
  done
done
echo "NOT-SILENT-RUNS=$bad"
