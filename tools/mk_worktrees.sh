#!/bin/bash
# usage: mk_worktrees.sh b C01 C02 ...   creates /tmp/wt/<ID><variant> worktrees of /repo HEAD
V=$1; shift
cd /repo
for id in "$@"; do git worktree add --detach /tmp/wt/${id}${V} HEAD >/dev/null 2>&1 && cp Cargo.lock /tmp/wt/${id}${V}/ && echo "${id}${V}"; done
