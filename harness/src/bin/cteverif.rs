use cteverif::core::{run_check, run_replay, run_worker, Tier, WorkerArgs};
use cteverif::props::registry;

fn usage() -> ! {
    eprintln!("usage: cteverif check <ID> <quick|thorough> [--replay PATH]\n       cteverif list");
    std::process::exit(2)
}

fn main() {
    let args: Vec<String> = std::env::args().collect();
    if args.len() < 2 {
        usage();
    }
    match args[1].as_str() {
        "list" => {
            for p in registry() {
                println!("{}", p.id());
            }
        }
        "check" => {
            if args.len() < 3 {
                usage();
            }
            let id = &args[2];
            let prop = match registry().into_iter().find(|p| p.id() == id) {
                Some(p) => p,
                None => {
                    println!("HARNESS-ERROR unknown property {}", id);
                    std::process::exit(2)
                }
            };
            let mut tier = std::env::var("VERIF_TIER").ok().and_then(|t| Tier::parse(&t)).unwrap_or(Tier::Quick);
            let mut replay: Option<String> = None;
            let mut i = 3;
            while i < args.len() {
                match args[i].as_str() {
                    "--replay" => {
                        replay = args.get(i + 1).cloned();
                        i += 1;
                    }
                    t => {
                        if let Some(tt) = Tier::parse(t) {
                            tier = tt;
                        }
                    }
                }
                i += 1;
            }
            let seed: u64 = std::env::var("VERIF_SEED").ok().and_then(|s| s.trim().parse::<i64>().ok()).map(|v| v as u64).unwrap_or(1);
            let code = match replay {
                Some(p) => run_replay(prop.as_ref(), &p),
                None => run_check(prop.as_ref(), tier, seed),
            };
            std::process::exit(code);
        }
        "aux" => {
            let code = cteverif::props::c05::aux_main(&args[2..]);
            std::process::exit(code);
        }
        "worker" => {
            // worker <id> <tier> <seed> <shard> <nshards> <start> <skip|-> <out> <deadline>
            if args.len() < 11 {
                usage();
            }
            let prop = registry().into_iter().find(|p| p.id() == args[2]).expect("property");
            let a = WorkerArgs {
                tier: Tier::parse(&args[3]).unwrap(),
                seed: args[4].parse().unwrap(),
                shard: args[5].parse().unwrap(),
                nshards: args[6].parse().unwrap(),
                start: args[7].parse().unwrap(),
                skip: if args[8] == "-" { vec![] } else { args[8].split(',').filter_map(|s| s.parse().ok()).collect() },
                out: args[9].clone().into(),
                deadline: args[10].parse().unwrap(),
            };
            let code = run_worker(prop.as_ref(), a);
            std::process::exit(code);
        }
        _ => usage(),
    }
}
