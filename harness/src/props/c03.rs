//! C03 Conversion preserves the building's geometry and orientation conventions

use bemodel::{Model, Point3, Vector3};
use serde_json::{json, Value};

use crate::convert::{project_texts, real_project_files, Conv};
use crate::core::{Case, Obs, Property, Tier};
use crate::gen::bdl::{gen_building, print_blocks, BuildCfg, Layout};
use crate::oracle::bdlgeom::{expected, Expected};
use crate::oracle::bdlread::{bdl_span, read_blocks};
use crate::oracle::geom::{cyclic_match, dot, unit, V3};
use crate::oracle::mref::{poly_area, MRef};
use crate::panicx::guard;
use crate::rng::Rng;

pub struct C03;

fn convert(is_xml: bool, text: &str) -> Conv {
    crate::convert::convert_text_routed(is_xml, text)
}

fn gpoints(g: &bemodel::WallGeom) -> Option<Vec<V3>> {
    let m = g.to_global_coords_matrix()?;
    Some(g.polygon.iter().map(|p| {
        let q = m * Point3::new(p.x, p.y, 0.0);
        [q.x as f64, q.y as f64, q.z as f64]
    }).collect())
}

/// replaces (or inserts) the AZIMUTH of the BUILD-PARAMETERS block in a BDL text
fn with_deviation(bdl: &str, new_dev: f64) -> Option<String> {
    let blocks = read_blocks(bdl);
    let bp = blocks.iter().find(|b| b.btype == "BUILD-PARAMETERS")?;
    let mut lines: Vec<String> = bdl.lines().map(|l| l.to_string()).collect();
    for i in bp.lines.0..=bp.lines.1.min(lines.len() - 1) {
        let t = lines[i].trim().to_string();
        if let Some(eq) = t.find('=') {
            if t[..eq].trim() == "AZIMUTH" {
                let inline_end = t.trim_end().ends_with("..");
                lines[i] = format!("           AZIMUTH   = {:.6}{}", new_dev, if inline_end { "  .." } else { "" });
                return Some(lines.join("\n"));
            }
        }
    }
    // no AZIMUTH line: insert one after the header
    lines.insert(bp.lines.0 + 1, format!("           AZIMUTH   = {:.6}", new_dev));
    Some(lines.join("\n"))
}

impl C03 {
    /// compares a converted model with the expectations from the text
    fn compare(&self, m: &Model, exp: &Expected, origin: &str, obs: &mut Obs, src: &Value) {
        for e in &exp.walls {
            let w = match m.walls.iter().find(|w| w.name == e.name) {
                Some(w) => w,
                None => {
                    obs.violation("wall-missing-in-model", format!("{}: wall {} of the project is not in the model", origin, e.name), src.clone());
                    continue;
                }
            };
            obs.eval();
            obs.count(&format!("wall_kind:{}", e.kind));
            let got = match gpoints(&w.geometry) {
                Some(g) => g,
                None => {
                    obs.violation("wall-without-position", format!("{}: converted wall {} has no position", origin, e.name), src.clone());
                    continue;
                }
            };
            // 1 cm + the documented 2-decimal rounding of azimuth/tilt (0.005 deg on the lever arm and on the element's own size)
            let size = e.pts.iter().map(|p| crate::oracle::geom::dist(*p, e.pts[0])).fold(0.0, f64::max);
            let tol = 0.01 + 1.0e-4 * (e.lever + size);
            let d = cyclic_match(&e.pts, &got);
            obs.max("max:wall_corner_error_mm", (d.min(1e6) * 1000.0) as u64);
            if d > tol {
                obs.violation(
                    &format!("wall-position:{}", e.kind),
                    format!("{}: wall {} ({}) is {:.3} m away from its source definition (tolerance {:.3})", origin, e.name, e.kind, d, tol),
                    json!({"expected_corners": e.pts, "converted_corners": got, "geometry": format!("{:?}", w.geometry), "source": src}),
                );
                continue;
            }
            // outward normal
            if let (Some(n), Some(mat)) = (e.normal, w.geometry.to_global_coords_matrix()) {
                let z = mat * Vector3::new(0.0, 0.0, 1.0);
                let nz: V3 = unit([z.x as f64, z.y as f64, z.z as f64]);
                // the polygon must be counter-clockwise in its own frame for +z to be its normal
                let ccw = {
                    let p = &w.geometry.polygon;
                    let mut s = 0.0;
                    for i in 0..p.len() {
                        let (a, b) = (p[i], p[(i + 1) % p.len()]);
                        s += a.x as f64 * b.y as f64 - a.y as f64 * b.x as f64;
                    }
                    s >= 0.0
                };
                let c = dot(n, nz) * if ccw || e.kind == "own-polygon" { 1.0 } else { -1.0 };
                if c < 0.9998 {
                    obs.violation(
                        &format!("wall-normal:{}", e.kind),
                        format!("{}: wall {} ({}) has outward normal {:?} but its source definition gives {:?}", origin, e.name, e.kind, nz, n),
                        json!({"geometry": format!("{:?}", w.geometry), "source": src}),
                    );
                    continue;
                }
            }
            let a = poly_area(&w.geometry.polygon);
            if (a - e.area).abs() > 2e-3 * e.area.max(1.0) {
                obs.violation(&format!("wall-area:{}", e.kind), format!("{}: wall {} has area {:.4} but its source polygon has {:.4}", origin, e.name, a, e.area), json!({"source": src}));
            }
        }
        for e in &exp.windows {
            obs.eval();
            obs.count("windows_compared");
            let win = match m.windows.iter().find(|w| w.name == e.name) {
                Some(w) => w,
                None => {
                    obs.violation("window-missing-in-model", format!("{}: window {} is not in the model", origin, e.name), src.clone());
                    continue;
                }
            };
            let wall = match m.walls.iter().find(|w| w.id == win.wall) {
                Some(w) => w,
                None => {
                    obs.violation("window-wall-missing", format!("{}: window {} refers to no wall of the model", origin, e.name), src.clone());
                    continue;
                }
            };
            if wall.name != e.wall {
                obs.violation("window-on-wrong-wall", format!("{}: window {} sits on {} instead of {}", origin, e.name, wall.name, e.wall), src.clone());
                continue;
            }
            let g = &win.geometry;
            let ok_size = (g.width as f64 - e.width).abs() < 1e-3 && (g.height as f64 - e.height).abs() < 1e-3 && (g.setback as f64 - e.setback).abs() < 1e-3;
            let pts: Option<Vec<V3>> = g.position.and_then(|p| {
                let mat = wall.geometry.to_global_coords_matrix()?;
                let c = |dx: f32, dy: f32| {
                    let q = mat * Point3::new(p.x + dx, p.y + dy, -g.setback);
                    [q.x as f64, q.y as f64, q.z as f64]
                };
                Some(vec![c(0.0, 0.0), c(g.width, 0.0), c(g.width, g.height), c(0.0, g.height)])
            });
            match pts {
                Some(p) if ok_size && cyclic_match(&e.pts, &p) <= 0.012 + 1e-4 * e.pts.iter().map(|q| (q[0] * q[0] + q[1] * q[1]).sqrt()).fold(0.0, f64::max) => {}
                other => obs.violation("window-placement", format!("{}: window {} (size {}x{}, setback {}) is not where its wall and offsets put it", origin, e.name, g.width, g.height, g.setback), json!({"expected_corners": e.pts, "converted_corners": other, "source": src})),
            }
        }
        for e in &exp.shades {
            obs.eval();
            obs.count(&format!("shade_kind:{}", e.kind));
            let s = match m.shades.iter().find(|s| s.name == e.name) {
                Some(s) => s,
                None => {
                    obs.violation("shade-missing-in-model", format!("{}: shade {} is not in the model", origin, e.name), src.clone());
                    continue;
                }
            };
            match gpoints(&s.geometry) {
                Some(g) if cyclic_match(&e.pts, &g) <= 0.01 + 1.2e-4 * (e.lever + e.area.sqrt()) => {
                    let a = poly_area(&s.geometry.polygon);
                    if (a - e.area).abs() > 2e-3 * e.area.max(1.0) {
                        obs.violation(&format!("shade-area:{}", e.kind), format!("{}: shade {} has area {:.4}, source {:.4}", origin, e.name, a, e.area), json!({"source": src}));
                    }
                }
                other => obs.violation(&format!("shade-position:{}", e.kind), format!("{}: shade {} does not keep its corner points", origin, e.name), json!({"expected_corners": e.pts, "converted_corners": other, "geometry": format!("{:?}", s.geometry), "source": src})),
            }
        }
    }

    /// metamorphic: the same project with delta added to the building's deviation
    fn turn(&self, m1: &Model, m2: &Model, delta: f64, origin: &str, obs: &mut Obs) {
        obs.eval();
        obs.count("turned_projects");
        let rot = |p: V3| -> V3 {
            let a = (-delta).to_radians();
            [p[0] * a.cos() - p[1] * a.sin(), p[0] * a.sin() + p[1] * a.cos(), p[2]]
        };
        if m1.walls.len() != m2.walls.len() || m1.windows.len() != m2.windows.len() || m1.shades.len() != m2.shades.len() {
            obs.violation("turn:element-count", format!("{}: element counts change when the building is turned by {}", origin, delta), json!({}));
            return;
        }
        let elems1 = m1.walls.iter().map(|w| (&w.name, &w.geometry)).chain(m1.shades.iter().map(|w| (&w.name, &w.geometry)));
        let elems2: Vec<(&String, &bemodel::WallGeom)> = m2.walls.iter().map(|w| (&w.name, &w.geometry)).chain(m2.shades.iter().map(|w| (&w.name, &w.geometry))).collect();
        for (i, (name, g1)) in elems1.enumerate() {
            let (n2, g2) = elems2[i];
            if n2 != name {
                obs.violation("turn:order", format!("{}: element order changes when the building is turned", origin), json!({}));
                return;
            }
            if let (Some(p1), Some(p2)) = (g1.position, g2.position) {
                let want = rot([p1.x as f64, p1.y as f64, p1.z as f64]);
                let got = [p2.x as f64, p2.y as f64, p2.z as f64];
                let lever = (want[0] * want[0] + want[1] * want[1]).sqrt();
                if crate::oracle::geom::dist(want, got) > 0.01 + 1e-5 * lever {
                    obs.violation("turn:position", format!("{}: turning the building by {} moves {} to {:?}, expected {:?}", origin, delta, name, got, want), json!({}));
                    return;
                }
            }
            let da = ((g1.azimuth as f64 - delta - g2.azimuth as f64) % 360.0 + 540.0) % 360.0 - 180.0;
            if da.abs() > 0.011 {
                obs.violation("turn:azimuth", format!("{}: turning by {}: azimuth of {} goes from {} to {} (off by {:.4})", origin, delta, name, g1.azimuth, g2.azimuth, da), json!({}));
                return;
            }
            if g1.tilt != g2.tilt || poly_area(&g1.polygon) != poly_area(&g2.polygon) || g1.polygon.len() != g2.polygon.len() {
                obs.violation("turn:tilt-or-polygon", format!("{}: turning by {} changes tilt/polygon of {}", origin, delta, name), json!({}));
                return;
            }
        }
        // areas, volumes, U, K, n50 unchanged
        let (r1, r2) = (MRef::new(m1), MRef::new(m2));
        if (r1.a_ref() - r2.a_ref()).abs() > 1e-6 || (r1.vol_net() - r2.vol_net()).abs() > 1e-6 {
            obs.violation("turn:areas-volumes", format!("{}: reference area / volume change when the building is turned", origin), json!({}));
        }
        for (w1, w2) in m1.walls.iter().zip(m2.walls.iter()) {
            let (u1, u2) = (guard(|| w1.u_value(m1)).ok().flatten(), guard(|| w2.u_value(m2)).ok().flatten());
            if u1 != u2 {
                obs.violation("turn:u-value", format!("{}: U of {} goes from {:?} to {:?} when the building is turned by {}", origin, w1.name, u1, u2, delta), json!({}));
                return;
            }
        }
        if let (Ok(i1), Ok(i2)) = (guard(|| m1.energy_indicators()), guard(|| m2.energy_indicators())) {
            let rel = |a: f32, b: f32| ((a - b).abs() as f64) <= 1e-5 * (a.abs().max(b.abs()) as f64) + 1e-7;
            if !rel(i1.K_data.K, i2.K_data.K) || !rel(i1.n50_data.n50, i2.n50_data.n50) || !rel(i1.area_ref, i2.area_ref) || !rel(i1.vol_env_net, i2.vol_env_net) {
                obs.violation("turn:K-n50", format!("{}: K {} -> {}, n50 {} -> {} when the building is turned by {}", origin, i1.K_data.K, i2.K_data.K, i1.n50_data.n50, i2.n50_data.n50, delta), json!({}));
            }
        }
    }

    fn run_project(&self, is_xml: bool, full: &str, bdl: &str, origin: &str, rng: &mut Rng, obs: &mut Obs) {
        let m = match convert(is_xml, full) {
            Conv::Ok(m) => m,
            Conv::Err(e) => {
                obs.count("project_rejected_by_converter");
                if origin.starts_with("generated") {
                    obs.violation("generated-project-rejected", format!("{}: {}", origin, e), json!({"bdl_head": bdl.chars().take(4000).collect::<String>()}));
                }
                return;
            }
            Conv::Panic(p) => {
                obs.panic_violation(&p, json!({"origin": origin}));
                return;
            }
        };
        let blocks = read_blocks(bdl);
        let exp = expected(&blocks);
        obs.add("walls_skipped_by_the_oracle", exp.skipped.len() as u64);
        obs.nontrivial(crate::rng::fnv64(format!("{}{}", origin, exp.walls.len()).as_bytes()));
        if blocks.iter().any(|b| b.btype == "SPACE" && b.num("AZIMUTH").unwrap_or(0.0) != 0.0 && (b.num("X").unwrap_or(0.0) != 0.0 || b.num("Y").unwrap_or(0.0) != 0.0)) {
            obs.count("projects_with_turned_and_offset_spaces");
        }
        if exp.deviation != 0.0 {
            obs.count("projects_with_global_deviation");
        }
        let src = json!({"project": origin});
        self.compare(&m, &exp, origin, obs, &src);
        // turn the whole building
        let delta = *rng.pick(&[90.0f64, 180.0, 270.0, 37.0, 123.45]);
        if let Some(bdl2) = with_deviation(bdl, exp.deviation + delta) {
            let full2 = if is_xml {
                match bdl_span(full) {
                    Some((a, b)) => format!("{}{}{}", &full[..a], bdl2, &full[b..]),
                    None => return,
                }
            } else {
                bdl2.clone()
            };
            match convert(is_xml, &full2) {
                Conv::Ok(m2) => {
                    self.turn(&m, &m2, delta, origin, obs);
                    // and the turned project still matches its own text
                    let exp2 = expected(&read_blocks(&bdl2));
                    self.compare(&m2, &exp2, &format!("{} turned by {}", origin, delta), obs, &src);
                }
                Conv::Err(e) => obs.violation("turn:rejected", format!("{}: rejected after adding {} to the deviation: {}", origin, delta, e), json!({})),
                Conv::Panic(p) => obs.panic_violation(&p, json!({"origin": origin, "turned_by": delta})),
            }
        }
        if obs.samples.len() < 3 {
            obs.sample(json!({"project": origin, "walls_compared": exp.walls.len(), "windows_compared": exp.windows.len(), "shades_compared": exp.shades.len(), "skipped": exp.skipped.len(), "global_deviation": exp.deviation, "turned_by": delta}));
        }
    }
}

impl Property for C03 {
    fn id(&self) -> &'static str {
        "C03"
    }
    fn rule(&self) -> String {
        "every convertible real project (12 .ctehexml + legacy .cte) and generated buildings (outlines with 3..10 vertices convex/L/U, 1-3 storeys, spaces offset and turned within the building, storey heights that differ from the space's own HEIGHT attribute, own-polygon walls and roofs, windows with setback on outline walls, rectangular and vertex shades, global deviation in [0,360)), printed in random layouts; corner points of every wall/window/shade pushed through to_global_coords_matrix are compared (as cyclic point sets, 1 cm + angular-rounding slack) with points computed by the harness from the text with its own block reader and the DOE-2 nesting; outward normals and areas; each project is converted again with 90/180/270/37/123.45 added to its deviation: positions turn, azimuths shift, tilt/polygons/areas/volumes/U/K/n50 unchanged; non-trivial = distinct project with at least one compared wall".into()
    }
    fn assumptions(&self) -> Vec<String> {
        vec![
            "DOE-2 nesting per level: first turn by the azimuth (clockwise from north), then translate; floor Z added to the space Z".into(),
            "walls whose location kind is outside {SPACE-Vn, TOP, BOTTOM, own polygon} are skipped and counted".into(),
            "louvres and window overhang/fin devices are outside the statement".into(),
        ]
    }
    fn workloads(&self, tier: Tier) -> Vec<(String, u64)> {
        vec![("real".into(), real_project_files().len() as u64), ("generated".into(), tier.pick(660, 5000))]
    }
    fn required(&self, tier: Tier) -> Vec<(String, u64)> {
        vec![
            ("wall_kind:space-vertex".into(), tier.pick(2000, 20_000)),
            ("wall_kind:top-from-outline".into(), 200),
            ("wall_kind:bottom-from-outline".into(), 200),
            ("wall_kind:own-polygon".into(), 200),
            ("windows_compared".into(), 200),
            ("shade_kind:shade-rectangle".into(), 50),
            ("shade_kind:shade-vertices".into(), 50),
            ("projects_with_turned_and_offset_spaces".into(), 30),
            ("projects_with_global_deviation".into(), 50),
            ("turned_projects".into(), 150),
        ]
    }
    fn run_case(&self, case: &Case, obs: &mut Obs) {
        let mut rng = case.rng();
        match case.kind {
            "real" => {
                let files = real_project_files();
                let f = &files[case.index as usize];
                let (is_xml, full, bdl) = project_texts(f);
                self.run_project(is_xml, &full, &bdl, &f.file_name().unwrap().to_string_lossy(), &mut rng, obs);
            }
            _ => {
                // a third of the projects in legacy form (attributes with a documented default left out: a ROOF placed by
                // its polygon without TILT is horizontal, other elements vertical)
                let b = gen_building(&mut rng, &BuildCfg { legacy_absent: case.index % 3 == 2, ..BuildCfg::full() });
                let lay = if rng.chance(0.5) { Layout::hulc() } else { Layout::random(&mut rng) };
                let bdl = print_blocks(&mut rng, &b.blocks(), &lay);
                let full = b.ctehexml(&bdl, "");
                self.run_project(true, &full, &bdl, &format!("generated#{}", case.index), &mut rng, obs);
            }
        }
    }
}
