//! C04 The JSON model format is lossless, idempotent and stable

use bemodel::{BoundaryType, ExtraData, MatProps, Model, Point2, Point3, SpaceType, ThermalBridgeKind, Tilt, Uuid};
use serde_json::{json, Value};

use crate::convert::{convert_path, real_project_files, Conv};
use crate::core::{Case, Obs, Property, Tier};
use crate::gen::model::{gen_model, uuid, GenCfg};
use crate::panicx::guard;
use crate::rng::Rng;

pub struct C04;

/// Debug text of the whole model with -0.0 written as 0.0 (equal numbers)
pub fn debug_text(m: &Model) -> String {
    let s = format!("{:?}", m);
    // "-0.0" not followed by a digit
    let bytes = s.as_bytes();
    let mut out = String::with_capacity(s.len());
    let mut i = 0;
    while i < bytes.len() {
        if bytes[i] == b'-' && s[i..].starts_with("-0.0") && !bytes.get(i + 4).map_or(false, |c| c.is_ascii_digit() || *c == b'e') && (i == 0 || !(bytes[i - 1].is_ascii_digit() || bytes[i - 1] == b'e')) {
            out.push_str("0.0");
            i += 4;
        } else {
            out.push(bytes[i] as char);
            i += 1;
        }
    }
    out
}

fn odd_f32(rng: &mut Rng) -> f32 {
    match rng.usize(6) {
        0 => *rng.pick(&[1e30f32, -1e30, 1e-30, 3.4e38, 1.17549435e-38, 1e-45, 16777216.0, 0.1, 0.3, 1.0 / 3.0]),
        1 => (rng.range_i(-1000, 1000)) as f32,
        2 => rng.dec(-100.0, 100.0, 2) as f32,
        _ => loop {
            let v = f32::from_bits(rng.next_u32());
            if v.is_finite() {
                break v;
            }
        },
    }
}

fn odd_string(rng: &mut Rng) -> String {
    match rng.usize(6) {
        0 => "muro \"doble\" hoja".to_string(),
        1 => "línea1\nlínea2\ttab \\ barra".to_string(),
        2 => "Fábrica 1/2' LP G > 80 ñ € 日本".to_string(),
        3 => " leading and trailing ".to_string(),
        4 => "\u{0001}control\u{007f}".to_string(),
        _ => format!("n{}", rng.next_u32()),
    }
}

/// Forces optional / defaulted fields into both states and salts numbers and strings
fn force_states(rng: &mut Rng, m: &mut Model) {
    let sparse = rng.chance(0.15);
    let p_empty = if sparse { 0.7 } else { 0.1 };
    macro_rules! maybe_clear {
        ($v:expr) => {
            if rng.chance(p_empty) {
                $v.clear();
            }
        };
    }
    maybe_clear!(m.spaces);
    maybe_clear!(m.walls);
    maybe_clear!(m.windows);
    maybe_clear!(m.thermal_bridges);
    maybe_clear!(m.shades);
    maybe_clear!(m.cons.wallcons);
    maybe_clear!(m.cons.wincons);
    maybe_clear!(m.cons.materials);
    maybe_clear!(m.cons.glasses);
    maybe_clear!(m.cons.frames);
    maybe_clear!(m.schedules.year);
    maybe_clear!(m.schedules.week);
    maybe_clear!(m.schedules.day);
    maybe_clear!(m.loads);
    maybe_clear!(m.thermostats);
    if rng.chance(p_empty) {
        m.overrides.walls.clear();
    }
    if rng.chance(p_empty) {
        m.overrides.windows.clear();
    }
    // make sure override maps are sometimes one-sided and sometimes both present
    if rng.chance(0.3) {
        m.overrides.walls.insert(uuid(rng), bemodel::WallPropsOverrides { u_value: if rng.chance(0.7) { Some(odd_f32(rng)) } else { None } });
    }
    if rng.chance(0.3) {
        m.overrides.windows.insert(
            uuid(rng),
            bemodel::WinPropsOverrides { u_value: if rng.chance(0.5) { Some(odd_f32(rng)) } else { None }, f_shobst: if rng.chance(0.5) { Some(odd_f32(rng)) } else { None } },
        );
    }
    let d = 0.25; // probability of forcing the default
    let o = 0.15; // probability of salting with an odd value
    m.meta.name = if rng.chance(d) { String::new() } else if rng.chance(o) { odd_string(rng) } else { m.meta.name.clone() };
    if rng.chance(d) {
        m.meta.global_ventilation_l_s = None;
    } else if rng.chance(o) {
        m.meta.global_ventilation_l_s = Some(odd_f32(rng));
    }
    if rng.chance(d) {
        m.meta.n50_test_ach = None;
    } else if rng.chance(o) {
        m.meta.n50_test_ach = Some(odd_f32(rng));
    }
    if rng.chance(d) {
        m.meta.d_perim_insulation = 0.0;
    } else if rng.chance(0.5) {
        m.meta.d_perim_insulation = odd_f32(rng);
    }
    if rng.chance(d) {
        m.meta.rn_perim_insulation = 0.0;
    } else if rng.chance(0.5) {
        m.meta.rn_perim_insulation = odd_f32(rng);
    }
    m.meta.num_dwellings = if rng.chance(0.1) { *rng.pick(&[0, -1, i32::MAX, i32::MIN]) } else { m.meta.num_dwellings };
    for s in m.spaces.iter_mut() {
        if rng.chance(d) {
            s.name.clear();
        } else if rng.chance(o) {
            s.name = odd_string(rng);
        }
        if rng.chance(d) {
            s.multiplier = 1.0;
        } else if rng.chance(o) {
            s.multiplier = odd_f32(rng);
        }
        if rng.chance(d) {
            s.kind = SpaceType::CONDITIONED;
        }
        if rng.chance(d) {
            s.inside_tenv = true;
        }
        if rng.chance(d) {
            s.z = 0.0;
        } else if rng.chance(o) {
            s.z = odd_f32(rng);
        }
        if rng.chance(d) {
            s.n_v = None;
        } else if rng.chance(o) {
            s.n_v = Some(odd_f32(rng));
        }
        if rng.chance(d) {
            s.illuminance = None;
        } else if rng.chance(o) {
            s.illuminance = Some(odd_f32(rng));
        }
        if rng.chance(d) {
            s.loads = None;
        }
        if rng.chance(d) {
            s.thermostat = None;
        }
        if rng.chance(o) {
            s.height = odd_f32(rng);
        }
    }
    for w in m.walls.iter_mut() {
        if rng.chance(d) {
            w.name.clear();
        } else if rng.chance(o) {
            w.name = odd_string(rng);
        }
        if rng.chance(d) {
            w.next_to = None;
        } else if rng.chance(o) {
            w.next_to = Some(uuid(rng));
        }
        if rng.chance(d) {
            w.geometry.position = None;
        } else if rng.chance(o) {
            w.geometry.position = Some(Point3::new(odd_f32(rng), odd_f32(rng), odd_f32(rng)));
        }
        if rng.chance(d) {
            w.geometry.polygon.clear();
        } else if rng.chance(o) {
            w.geometry.polygon.push(Point2::new(odd_f32(rng), odd_f32(rng)));
        }
        if rng.chance(o) {
            w.geometry.tilt = odd_f32(rng);
            w.geometry.azimuth = odd_f32(rng);
        }
        if rng.chance(o) {
            w.cons = Uuid::nil();
        }
    }
    for w in m.shades.iter_mut() {
        if rng.chance(d) {
            w.name.clear();
        }
        if rng.chance(d) {
            w.geometry.position = None;
        }
        if rng.chance(d) {
            w.geometry.polygon.clear();
        }
    }
    for w in m.windows.iter_mut() {
        if rng.chance(d) {
            w.name.clear();
        } else if rng.chance(o) {
            w.name = odd_string(rng);
        }
        if rng.chance(d) {
            w.geometry.position = None;
        } else if rng.chance(o) {
            w.geometry.position = Some(Point2::new(odd_f32(rng), odd_f32(rng)));
        }
        if rng.chance(o) {
            w.geometry.setback = odd_f32(rng);
            w.geometry.width = odd_f32(rng);
        }
    }
    for t in m.thermal_bridges.iter_mut() {
        if rng.chance(d) {
            t.name.clear();
        }
        if rng.chance(d) {
            t.kind = ThermalBridgeKind::GENERIC;
        }
        if rng.chance(d) {
            t.l = 0.0;
        } else if rng.chance(o) {
            t.l = odd_f32(rng);
        }
        if rng.chance(d) {
            t.psi = 0.0;
        } else if rng.chance(o) {
            t.psi = odd_f32(rng);
        }
    }
    for c in m.cons.wallcons.iter_mut() {
        if rng.chance(d) {
            c.name.clear();
        }
        if rng.chance(d) {
            c.layers.clear();
        }
        if rng.chance(o) {
            c.absorptance = odd_f32(rng);
        }
        for l in c.layers.iter_mut() {
            if rng.chance(o) {
                l.e = odd_f32(rng);
            }
        }
    }
    for c in m.cons.wincons.iter_mut() {
        if rng.chance(d) {
            c.name.clear();
        }
        if rng.chance(d) {
            c.g_glshwi = None;
        } else if rng.chance(0.5) {
            c.g_glshwi = Some(odd_f32(rng));
        }
        if rng.chance(o) {
            c.delta_u = odd_f32(rng);
            c.f_f = odd_f32(rng);
            c.c_100 = odd_f32(rng);
        }
    }
    for c in m.cons.materials.iter_mut() {
        if rng.chance(d) {
            c.name.clear();
        } else if rng.chance(o) {
            c.name = odd_string(rng);
        }
        let vd = if rng.chance(0.5) { None } else { Some(if rng.chance(0.5) { odd_f32(rng) } else { 10.0 }) };
        c.properties = if rng.chance(0.5) {
            MatProps::Detailed {
                conductivity: if rng.chance(o) { odd_f32(rng) } else { 0.23 },
                density: if rng.chance(o) { odd_f32(rng) } else { 900.0 },
                specific_heat: if rng.chance(o) { odd_f32(rng) } else { 1000.0 },
                vapour_diff: vd,
            }
        } else {
            MatProps::Resistance { resistance: if rng.chance(0.5) { odd_f32(rng) } else { 0.18 }, vapour_diff: vd }
        };
    }
    for c in m.cons.glasses.iter_mut() {
        if rng.chance(d) {
            c.name.clear();
        }
        if rng.chance(o) {
            c.u_value = odd_f32(rng);
            c.g_gln = odd_f32(rng);
        }
    }
    for c in m.cons.frames.iter_mut() {
        if rng.chance(d) {
            c.name.clear();
        }
        if rng.chance(o) {
            c.u_value = odd_f32(rng);
            c.absorptivity = odd_f32(rng);
        }
    }
    for y in m.schedules.year.iter_mut() {
        if rng.chance(d) {
            y.name.clear();
        }
        if rng.chance(d) {
            y.values.clear();
        } else if rng.chance(o) {
            y.values.push((uuid(rng), rng.next_u32()));
        }
    }
    for y in m.schedules.week.iter_mut() {
        if rng.chance(d) {
            y.name.clear();
        }
        if rng.chance(d) {
            y.values.clear();
        }
    }
    for y in m.schedules.day.iter_mut() {
        if rng.chance(d) {
            y.name.clear();
        }
        if rng.chance(d) {
            y.values.clear();
        } else if rng.chance(o) {
            y.values.push(odd_f32(rng));
        }
    }
    for l in m.loads.iter_mut() {
        if rng.chance(d) {
            l.name.clear();
        }
        if rng.chance(d) {
            l.people_schedule = None;
        }
        if rng.chance(d) {
            l.equipment_schedule = None;
        }
        if rng.chance(d) {
            l.lighting_schedule = None;
        }
        if rng.chance(o) {
            l.area_per_person = odd_f32(rng);
            l.lighting = odd_f32(rng);
        }
    }
    for l in m.thermostats.iter_mut() {
        if rng.chance(d) {
            l.name.clear();
        }
        if rng.chance(d) {
            l.temp_max = None;
        }
        if rng.chance(d) {
            l.temp_min = None;
        }
    }
    m.extra = match rng.usize(4) {
        0 => None,
        1 => Some(vec![]),
        _ => Some(
            (0..1 + rng.usize(3))
                .map(|_| ExtraData {
                    name: odd_string(rng),
                    bounds: *rng.pick(&[BoundaryType::EXTERIOR, BoundaryType::INTERIOR, BoundaryType::GROUND, BoundaryType::ADIABATIC]),
                    spacetype: *rng.pick(&[SpaceType::CONDITIONED, SpaceType::UNCONDITIONED, SpaceType::UNINHABITED]),
                    nextspace: if rng.chance(0.5) { Some(uuid(rng)) } else { None },
                    nextspacetype: if rng.chance(0.5) { Some(SpaceType::UNINHABITED) } else { None },
                    tilt: *rng.pick(&[Tilt::TOP, Tilt::SIDE, Tilt::BOTTOM]),
                    cons: uuid(rng),
                    u: odd_f32(rng),
                    computed_u: odd_f32(rng),
                })
                .collect(),
        ),
    };
}

/// records, per defaultable field, which states occur in this model
fn record_matrix(m: &Model, obs: &mut Obs) {
    let keys = matrix_keys(m);
    for k in keys {
        obs.count(&k);
    }
}

fn matrix_keys(m: &Model) -> Vec<String> {
    let mut keys: std::collections::BTreeSet<String> = std::collections::BTreeSet::new();
    let mut extra: Vec<String> = vec![];
    let mut st = |field: &str, is_default: bool| {
        keys.insert(format!("field:{}:{}", field, if is_default { "default" } else { "nondefault" }));
    };
    st("model.spaces", m.spaces.is_empty());
    st("model.walls", m.walls.is_empty());
    st("model.windows", m.windows.is_empty());
    st("model.thermal_bridges", m.thermal_bridges.is_empty());
    st("model.shades", m.shades.is_empty());
    let cons_empty = m.cons.wallcons.is_empty() && m.cons.wincons.is_empty() && m.cons.materials.is_empty() && m.cons.glasses.is_empty() && m.cons.frames.is_empty();
    st("model.cons", cons_empty);
    // a database with exactly one non-empty collection (each of the five)
    let ne = [!m.cons.wallcons.is_empty(), !m.cons.wincons.is_empty(), !m.cons.materials.is_empty(), !m.cons.glasses.is_empty(), !m.cons.frames.is_empty()];
    if ne.iter().filter(|x| **x).count() == 1 {
        let which = ["wallcons", "wincons", "materials", "glasses", "frames"][ne.iter().position(|x| *x).unwrap()];
        extra.push(format!("cons_only:{}", which));
    }
    st("cons.wallcons", m.cons.wallcons.is_empty());
    st("cons.wincons", m.cons.wincons.is_empty());
    st("cons.materials", m.cons.materials.is_empty());
    st("cons.glasses", m.cons.glasses.is_empty());
    st("cons.frames", m.cons.frames.is_empty());
    let sch_empty = m.schedules.year.is_empty() && m.schedules.week.is_empty() && m.schedules.day.is_empty();
    st("model.schedules", sch_empty);
    let ns = [!m.schedules.year.is_empty(), !m.schedules.week.is_empty(), !m.schedules.day.is_empty()];
    if ns.iter().filter(|x| **x).count() == 1 {
        extra.push(format!("schedules_only:{}", ["year", "week", "day"][ns.iter().position(|x| *x).unwrap()]));
    }
    st("model.loads", m.loads.is_empty());
    st("model.thermostats", m.thermostats.is_empty());
    st("model.overrides", m.overrides.walls.is_empty() && m.overrides.windows.is_empty());
    if m.overrides.walls.is_empty() != m.overrides.windows.is_empty() {
        extra.push((if m.overrides.walls.is_empty() { "overrides_only:windows" } else { "overrides_only:walls" }).to_string());
    }
    st("model.extra", m.extra.is_none());
    st("meta.name", m.meta.name.is_empty());
    st("meta.global_ventilation_l_s", m.meta.global_ventilation_l_s.is_none());
    st("meta.n50_test_ach", m.meta.n50_test_ach.is_none());
    st("meta.d_perim_insulation", m.meta.d_perim_insulation == 0.0);
    st("meta.rn_perim_insulation", m.meta.rn_perim_insulation == 0.0);
    for s in &m.spaces {
        st("space.name", s.name.is_empty());
        st("space.multiplier", s.multiplier == 1.0);
        st("space.kind", s.kind == SpaceType::CONDITIONED);
        st("space.inside_tenv", s.inside_tenv);
        st("space.z", s.z == 0.0);
        st("space.n_v", s.n_v.is_none());
        st("space.illuminance", s.illuminance.is_none());
        st("space.loads", s.loads.is_none());
        st("space.thermostat", s.thermostat.is_none());
    }
    for w in &m.walls {
        st("wall.name", w.name.is_empty());
        st("wall.next_to", w.next_to.is_none());
        st("wallgeom.position", w.geometry.position.is_none());
        st("wallgeom.polygon", w.geometry.polygon.is_empty());
    }
    for w in &m.shades {
        st("shade.name", w.name.is_empty());
    }
    for w in &m.windows {
        st("window.name", w.name.is_empty());
        st("wingeom.position", w.geometry.position.is_none());
    }
    for t in &m.thermal_bridges {
        st("tb.name", t.name.is_empty());
        st("tb.kind", t.kind == ThermalBridgeKind::GENERIC);
        st("tb.l", t.l == 0.0);
        st("tb.psi", t.psi == 0.0);
    }
    for c in &m.cons.wallcons {
        st("wallcons.name", c.name.is_empty());
        st("wallcons.layers", c.layers.is_empty());
    }
    for c in &m.cons.wincons {
        st("wincons.name", c.name.is_empty());
        st("wincons.g_glshwi", c.g_glshwi.is_none());
    }
    for c in &m.cons.materials {
        st("material.name", c.name.is_empty());
        match c.properties {
            MatProps::Detailed { vapour_diff, .. } => st("material.detailed.vapour_diff", vapour_diff.is_none()),
            MatProps::Resistance { vapour_diff, .. } => st("material.resistance.vapour_diff", vapour_diff.is_none()),
        }
    }
    for c in &m.cons.glasses {
        st("glass.name", c.name.is_empty());
    }
    for c in &m.cons.frames {
        st("frame.name", c.name.is_empty());
    }
    for y in &m.schedules.year {
        st("schedule_year.name", y.name.is_empty());
        st("schedule_year.values", y.values.is_empty());
    }
    for y in &m.schedules.week {
        st("schedule_week.name", y.name.is_empty());
        st("schedule_week.values", y.values.is_empty());
    }
    for y in &m.schedules.day {
        st("schedule_day.name", y.name.is_empty());
        st("schedule_day.values", y.values.is_empty());
    }
    for l in &m.loads {
        st("loads.name", l.name.is_empty());
        st("loads.people_schedule", l.people_schedule.is_none());
        st("loads.equipment_schedule", l.equipment_schedule.is_none());
        st("loads.lighting_schedule", l.lighting_schedule.is_none());
    }
    for l in &m.thermostats {
        st("thermostat.name", l.name.is_empty());
        st("thermostat.temp_max", l.temp_max.is_none());
        st("thermostat.temp_min", l.temp_min.is_none());
    }
    for o in m.overrides.walls.values() {
        st("override.wall.u_value", o.u_value.is_none());
    }
    for o in m.overrides.windows.values() {
        st("override.window.u_value", o.u_value.is_none());
        st("override.window.f_shobst", o.f_shobst.is_none());
    }
    let mut out: Vec<String> = keys.into_iter().collect();
    out.extend(extra);
    out
}

pub const FIELDS: [&str; 62] = [
    "model.spaces", "model.walls", "model.windows", "model.thermal_bridges", "model.shades", "model.cons", "cons.wallcons", "cons.wincons", "cons.materials", "cons.glasses", "cons.frames", "model.schedules", "model.loads", "model.thermostats", "model.overrides", "model.extra", "meta.name", "meta.global_ventilation_l_s", "meta.n50_test_ach", "meta.d_perim_insulation", "meta.rn_perim_insulation", "space.name", "space.multiplier", "space.kind", "space.inside_tenv", "space.z", "space.n_v", "space.illuminance", "space.loads", "space.thermostat", "wall.name", "wall.next_to", "wallgeom.position", "wallgeom.polygon", "shade.name", "window.name", "wingeom.position", "tb.name", "tb.kind", "tb.l", "tb.psi", "wallcons.name", "wallcons.layers", "wincons.name", "wincons.g_glshwi", "material.name", "material.detailed.vapour_diff", "material.resistance.vapour_diff", "glass.name", "frame.name", "schedule_year.name", "schedule_year.values", "schedule_week.name", "schedule_week.values", "schedule_day.name", "schedule_day.values", "loads.name", "loads.people_schedule", "thermostat.temp_max", "override.wall.u_value", "override.window.u_value", "override.window.f_shobst",
];

/// Compares two JSON values: key sets exactly, numbers at f32 precision
fn value_diff(a: &Value, b: &Value, path: &str, out: &mut Vec<String>) {
    if out.len() > 5 {
        return;
    }
    match (a, b) {
        (Value::Object(x), Value::Object(y)) => {
            for k in x.keys() {
                if !y.contains_key(k) {
                    out.push(format!("{}.{}: key lost", path, k));
                }
            }
            for k in y.keys() {
                if !x.contains_key(k) {
                    out.push(format!("{}.{}: key added", path, k));
                }
            }
            for (k, v) in x {
                if let Some(w) = y.get(k) {
                    value_diff(v, w, &format!("{}.{}", path, k), out);
                }
            }
        }
        (Value::Array(x), Value::Array(y)) => {
            if x.len() != y.len() {
                out.push(format!("{}: array length {} -> {}", path, x.len(), y.len()));
                return;
            }
            for (i, (v, w)) in x.iter().zip(y.iter()).enumerate() {
                value_diff(v, w, &format!("{}[{}]", path, i), out);
            }
        }
        (Value::Number(x), Value::Number(y)) => {
            let (fx, fy) = (x.as_f64().unwrap_or(f64::NAN), y.as_f64().unwrap_or(f64::NAN));
            // integers must be equal as integers; floats at f32 precision
            let same = if x.is_i64() && y.is_i64() || x.is_u64() && y.is_u64() { x == y } else { (fx as f32) == (fy as f32) };
            if !same {
                out.push(format!("{}: number {} -> {}", path, x, y));
            }
        }
        (x, y) => {
            if x != y {
                out.push(format!("{}: {} -> {}", path, x.to_string().chars().take(60).collect::<String>(), y.to_string().chars().take(60).collect::<String>()));
            }
        }
    }
}

fn first_diff(a: &str, b: &str) -> String {
    let pos = a.bytes().zip(b.bytes()).position(|(x, y)| x != y).unwrap_or(a.len().min(b.len()));
    let s = pos.saturating_sub(60);
    // char-boundary safe slicing
    let cut = |t: &str| -> String { t.chars().skip(t[..s.min(t.len())].chars().count()).take(140).collect() };
    format!("…{} ≠ …{}", cut(a), cut(b))
}

impl C04 {
    fn roundtrip(&self, m: &Model, origin: &str, obs: &mut Obs) {
        obs.eval();
        let j1 = match guard(|| m.as_json()) {
            Ok(Ok(j)) => j,
            Ok(Err(e)) => {
                obs.violation("as_json-error", format!("{}: as_json failed: {}", origin, e), json!({}));
                return;
            }
            Err(p) => {
                obs.panic_violation(&p, json!({"where": "Model::as_json", "origin": origin}));
                return;
            }
        };
        let m2 = match guard(|| Model::from_json(&j1)) {
            Ok(Ok(m2)) => m2,
            Ok(Err(e)) => {
                obs.violation("from_json-rejects-own-output", format!("{}: from_json(as_json(m)) failed: {}", origin, e), json!({"json_head": j1.chars().take(400).collect::<String>()}));
                return;
            }
            Err(p) => {
                obs.panic_violation(&p, json!({"where": "Model::from_json", "origin": origin}));
                return;
            }
        };
        let (d1, d2) = (debug_text(m), debug_text(&m2));
        if d1 != d2 {
            // name the field: first differing Debug token context
            let diff = first_diff(&d1, &d2);
            // a stable class: the struct field name preceding the difference
            let pos = d1.bytes().zip(d2.bytes()).position(|(x, y)| x != y).unwrap_or(0);
            let before = &d1[..pos.min(d1.len())];
            let field = before.rsplit(|c: char| c == ' ' || c == '{' || c == '(' || c == ',').find(|t| t.ends_with(':')).unwrap_or("?").trim_end_matches(':').to_string();
            obs.violation(&format!("roundtrip-loses-information:{}", field), format!("{}: model differs after as_json/from_json near `{}`: {}", origin, field, diff), json!({"field": field}));
            return;
        }
        let j2 = match guard(|| m2.as_json()) {
            Ok(Ok(j)) => j,
            _ => {
                obs.violation("second-serialisation-failed", format!("{}: as_json of the re-loaded model failed", origin), json!({}));
                return;
            }
        };
        if j1 != j2 {
            obs.violation("serialisation-not-idempotent", format!("{}: second serialisation differs: {}", origin, first_diff(&j1, &j2)), json!({}));
        }
        // omitted-when-default fields really are omitted, and present otherwise
        let v: Value = serde_json::from_str(&j1).unwrap_or(Value::Null);
        let has = |k: &str| v.get(k).is_some();
        let expect = [
            ("spaces", !m.spaces.is_empty()),
            ("walls", !m.walls.is_empty()),
            ("windows", !m.windows.is_empty()),
            ("thermal_bridges", !m.thermal_bridges.is_empty()),
            ("shades", !m.shades.is_empty()),
            ("cons", !(m.cons.wallcons.is_empty() && m.cons.wincons.is_empty() && m.cons.materials.is_empty() && m.cons.glasses.is_empty() && m.cons.frames.is_empty())),
            ("schedules", !(m.schedules.year.is_empty() && m.schedules.week.is_empty() && m.schedules.day.is_empty())),
            ("loads", !m.loads.is_empty()),
            ("thermostats", !m.thermostats.is_empty()),
            ("overrides", !(m.overrides.walls.is_empty() && m.overrides.windows.is_empty())),
            ("extra", m.extra.is_some()),
        ];
        for (k, present) in expect {
            if has(k) != present {
                obs.violation(&format!("default-omission:{}", k), format!("{}: key `{}` present = {} but the field is {}", origin, k, has(k), if present { "not default" } else { "default" }), json!({}));
            }
        }
    }
}

impl Property for C04 {
    fn id(&self) -> &'static str {
        "C04"
    }
    fn rule(&self) -> String {
        format!("generated models in which each of {} defaultable/optional fields is forced to its default and to a non-default value (per-field matrix in counters; a field never seen in both states fails the run), both material variants, odd strings (quotes, newlines, control and non-ASCII characters), numbers from four pools incl. random finite f32 bit patterns; as_json -> from_json -> Debug-text equality of every field, second serialisation text-identical, default-valued top-level sections omitted; the 7 shipped model files and all converted real projects: Value(file) == Value(as_json(from_json(file))) with exact key sets and numbers at f32 precision; non-trivial = distinct generated model / file", FIELDS.len())
    }
    fn assumptions(&self) -> Vec<String> {
        vec!["-0.0 and 0.0 are the same number".into(), "NaN/inf are outside JSON and not generated".into()]
    }
    fn workloads(&self, tier: Tier) -> Vec<(String, u64)> {
        vec![
            ("shipped".into(), crate::corpus::model_json_files().len() as u64),
            ("converted".into(), real_project_files().len() as u64),
            ("generated".into(), tier.pick(8000, 150_000)),
        ]
    }
    fn required(&self, _tier: Tier) -> Vec<(String, u64)> {
        let mut v = vec![];
        for f in FIELDS {
            v.push((format!("field:{}:default", f), 3));
            v.push((format!("field:{}:nondefault", f), 3));
        }
        for c in ["wallcons", "wincons", "materials", "glasses", "frames"] {
            v.push((format!("cons_only:{}", c), 1));
        }
        for c in ["year", "week", "day"] {
            v.push((format!("schedules_only:{}", c), 1));
        }
        v.push(("overrides_only:walls".into(), 5));
        v.push(("overrides_only:windows".into(), 5));
        v.push(("shipped_files_compared".into(), 7));
        v
    }
    fn run_case(&self, case: &Case, obs: &mut Obs) {
        let mut rng = case.rng();
        match case.kind {
            "shipped" => {
                let files = crate::corpus::model_json_files();
                let f = &files[case.index as usize];
                let text = crate::corpus::read_utf8(f);
                let name = f.file_name().unwrap().to_string_lossy().to_string();
                obs.eval();
                let m = match guard(|| Model::from_json(&text)) {
                    Ok(Ok(m)) => m,
                    Ok(Err(e)) => {
                        obs.violation("shipped-file-does-not-load", format!("{}: {}", name, e), json!({}));
                        return;
                    }
                    Err(p) => {
                        obs.panic_violation(&p, json!({"file": name}));
                        return;
                    }
                };
                let out = m.as_json().unwrap_or_default();
                let (va, vb): (Value, Value) = (serde_json::from_str(&text).unwrap_or(Value::Null), serde_json::from_str(&out).unwrap_or(Value::Null));
                let mut diffs = vec![];
                value_diff(&va, &vb, "$", &mut diffs);
                obs.count("shipped_files_compared");
                obs.nontrivial_str(&name);
                if !diffs.is_empty() {
                    let class = diffs[0].rsplit(':').next().unwrap_or("").trim().split(' ').next().unwrap_or("").to_string();
                    obs.violation(&format!("shipped-file-changes-on-reserialisation:{}", class), format!("{}: {}", name, diffs.join("; ")), json!({"diffs": diffs}));
                }
                self.roundtrip(&m, &name, obs);
                obs.sample(json!({"file": name, "keys_top_level": va.as_object().map(|o| o.keys().cloned().collect::<Vec<_>>()), "bytes": text.len()}));
            }
            "converted" => {
                let files = real_project_files();
                let f = &files[case.index as usize];
                if let Conv::Ok(m) = convert_path(f) {
                    obs.count("converted_models_roundtripped");
                    obs.nontrivial_str(&f.to_string_lossy());
                    self.roundtrip(&m, &f.file_name().unwrap().to_string_lossy(), obs);
                }
            }
            _ => {
                let mut cfg = GenCfg::small();
                cfg.nfloors = (1, 2);
                let mut m = gen_model(&mut rng, &cfg).model;
                force_states(&mut rng, &mut m);
                record_matrix(&m, obs);
                obs.nontrivial(crate::rng::fnv64(debug_text(&m).as_bytes()));
                self.roundtrip(&m, &format!("generated#{}", case.index), obs);
            }
        }
    }
}
