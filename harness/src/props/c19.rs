//! C19 Damaged project files are rejected with an error, never with a crash or hang

use std::convert::TryFrom;
use std::path::PathBuf;
use std::sync::OnceLock;

use bemodel::Model;
use hulc::bdl::{Data, DB};
use hulc::ctehexml::{self, CtehexmlData};
use serde_json::{json, Value};

use crate::core::{Case, Obs, Property, Tier};
use crate::panicx::guard;

pub struct C19;

#[derive(Clone, Copy, PartialEq, Debug)]
enum FileKind {
    Ctehexml,
    Cte,
    Kyg,
    Tbl,
}

struct Corpus {
    files: Vec<(PathBuf, FileKind, Vec<String>)>,
    /// cumulative number of lines
    cum: Vec<u64>,
}

static CORPUS: OnceLock<Corpus> = OnceLock::new();
static CATALOG: OnceLock<Option<DB>> = OnceLock::new();

fn corpus() -> &'static Corpus {
    CORPUS.get_or_init(|| {
        let mut files: Vec<(PathBuf, FileKind, Vec<String>)> = vec![];
        for f in crate::corpus::ctehexml_files() {
            let t = crate::corpus::read_utf8(&f);
            files.push((f, FileKind::Ctehexml, t.lines().map(|l| l.to_string()).collect()));
        }
        for f in crate::corpus::cte_files() {
            let t = crate::corpus::read_latin1(&f);
            files.push((f, FileKind::Cte, t.lines().map(|l| l.to_string()).collect()));
        }
        for f in crate::corpus::kyg_files() {
            let t = crate::corpus::read_latin1(&f);
            files.push((f, FileKind::Kyg, t.lines().map(|l| l.to_string()).collect()));
        }
        for f in crate::corpus::tbl_files() {
            let t = crate::corpus::read_latin1(&f);
            files.push((f, FileKind::Tbl, t.lines().map(|l| l.to_string()).collect()));
        }
        let mut cum = vec![];
        let mut tot = 0u64;
        for f in &files {
            tot += f.2.len() as u64;
            cum.push(tot);
        }
        Corpus { files, cum }
    })
}

fn catalog() -> Option<DB> {
    CATALOG.get_or_init(|| guard(|| ctehexml::load_lider_catalog().ok()).ok().flatten()).clone()
}

pub const EDITS: [&str; 10] = ["delete-line", "duplicate-line", "delete-block", "rename-quoted-name", "number->abc", "number->1e39", "number->-1", "number->999999", "truncate-after-line", "reference->own-block"];

/// `"name" = TYPE` header line of a BDL block: returns the name
fn header_name(l: &str) -> Option<&str> {
    let t = l.trim();
    if !t.starts_with('"') {
        return None;
    }
    let q = t[1..].find('"')? + 1;
    let rest = t[q + 1..].trim_start();
    let ty = rest.strip_prefix('=')?.trim();
    if !ty.is_empty() && ty.chars().all(|c| c.is_ascii_uppercase() || c == '-' || c.is_ascii_digit()) {
        Some(&t[1..q])
    } else {
        None
    }
}

/// one of the numeric literals of the line, chosen by `pick` (a long ;-separated record is not always hit in its first field)
fn some_number(line: &str, pick: usize) -> Option<(usize, usize)> {
    let mut spans = vec![];
    let mut from = 0;
    while from < line.len() {
        match first_number(&line[from..]) {
            Some((a, b)) => {
                spans.push((from + a, from + b));
                from += b.max(a + 1);
            }
            None => break,
        }
    }
    if spans.is_empty() {
        None
    } else {
        Some(spans[pick % spans.len()])
    }
}

/// first numeric literal on the line that is not part of an identifier: (start, end)
fn first_number(line: &str) -> Option<(usize, usize)> {
    let b = line.as_bytes();
    let mut i = 0;
    while i < b.len() {
        let c = b[i];
        let starts = c.is_ascii_digit() || ((c == b'-' || c == b'+' || c == b'.') && b.get(i + 1).map_or(false, |d| d.is_ascii_digit()));
        let prev_ok = i == 0 || !(b[i - 1].is_ascii_alphanumeric() || b[i - 1] == b'_' || b[i - 1] == b'"' && false);
        if starts && prev_ok {
            let mut j = i + 1;
            while j < b.len() && (b[j].is_ascii_digit() || b[j] == b'.') {
                j += 1;
            }
            if j < b.len() && (b[j] == b'e' || b[j] == b'E') && b.get(j + 1).map_or(false, |d| d.is_ascii_digit() || *d == b'-' || *d == b'+') {
                j += 2;
                while j < b.len() && b[j].is_ascii_digit() {
                    j += 1;
                }
            }
            // not followed by identifier characters (e.g. "3D")
            if j >= b.len() || !(b[j].is_ascii_alphabetic() || b[j] == b'_') {
                return Some((i, j));
            }
            i = j;
        } else {
            i += 1;
        }
    }
    None
}

/// applies edit `kind` at `line`; None when the edit does not apply there (no number / no name on the line)
pub fn damage(lines: &[String], line: usize, kind: usize, crlf: bool) -> Option<String> {
    let eol = if crlf { "\r\n" } else { "\n" };
    let mut out: Vec<&str> = Vec::with_capacity(lines.len() + 1);
    let owned: String;
    match kind {
        0 => {
            out.extend(lines[..line].iter().map(|s| s.as_str()));
            out.extend(lines[line + 1..].iter().map(|s| s.as_str()));
        }
        1 => {
            out.extend(lines[..=line].iter().map(|s| s.as_str()));
            out.extend(lines[line..].iter().map(|s| s.as_str()));
        }
        2 => {
            // the block containing the line: from after the previous ".." line to the next ".." line
            let is_end = |s: &str| s.trim() == "..";
            let mut a = line;
            while a > 0 && !is_end(&lines[a - 1]) {
                a -= 1;
            }
            let mut b = line;
            while b < lines.len() && !is_end(&lines[b]) {
                b += 1;
            }
            if b >= lines.len() {
                return None; // not inside a terminated block
            }
            out.extend(lines[..a].iter().map(|s| s.as_str()));
            out.extend(lines[b + 1..].iter().map(|s| s.as_str()));
        }
        3 => {
            let l = &lines[line];
            let p = l.find('"')?;
            let q = l[p + 1..].find('"')? + p + 1;
            if q == p + 1 {
                return None;
            }
            owned = format!("{}\"renamed_by_verifier\"{}", &l[..p], &l[q + 1..]);
            out.extend(lines[..line].iter().map(|s| s.as_str()));
            out.push(&owned);
            out.extend(lines[line + 1..].iter().map(|s| s.as_str()));
        }
        4..=7 => {
            let l = &lines[line];
            let (a, b) = some_number(l, line + kind)?;
            let rep = ["abc", "1e39", "-1", "999999"][kind - 4];
            owned = format!("{}{}{}", &l[..a], rep, &l[b..]);
            out.extend(lines[..line].iter().map(|s| s.as_str()));
            out.push(&owned);
            out.extend(lines[line + 1..].iter().map(|s| s.as_str()));
        }
        8 => {
            if line + 1 >= lines.len() {
                return None;
            }
            out.extend(lines[..=line].iter().map(|s| s.as_str()));
        }
        _ => {
            // a reference re-targeted to an existing name: the quoted name on an attribute line becomes the name of the
            // block the line belongs to (a floor resting on itself, a schedule listing itself, a wall next to ...)
            let l = &lines[line];
            if header_name(l).is_some() {
                return None;
            }
            let eq = l.find('=')?;
            let p = l[eq..].find('"')? + eq;
            let q = l[p + 1..].find('"')? + p + 1;
            let mut h = line;
            let own = loop {
                if h == 0 {
                    return None;
                }
                h -= 1;
                if lines[h].trim() == ".." {
                    return None;
                }
                if let Some(n) = header_name(&lines[h]) {
                    break n;
                }
            };
            if own == &l[p + 1..q] {
                return None;
            }
            owned = format!("{}\"{}\"{}", &l[..p], own, &l[q + 1..]);
            out.extend(lines[..line].iter().map(|s| s.as_str()));
            out.push(&owned);
            out.extend(lines[line + 1..].iter().map(|s| s.as_str()));
        }
    }
    let mut s = out.join(eol);
    s.push_str(eol);
    Some(s)
}

enum Outcome {
    Ok,
    Err,
}

fn merge_catalog(d: &mut CtehexmlData) -> bool {
    match catalog() {
        Some(cat) => {
            let mut db = std::mem::take(&mut d.bdldata.db);
            db.materials.extend(cat.materials);
            db.wallcons.extend(cat.wallcons);
            db.wincons.extend(cat.wincons);
            db.glasses.extend(cat.glasses);
            db.frames.extend(cat.frames);
            d.bdldata.db = db;
            true
        }
        None => false,
    }
}

impl C19 {
    fn run_one(&self, kind: FileKind, text: &str, scratch: &std::path::Path) -> Result<Outcome, crate::panicx::PanicInfo> {
        guard(|| -> Outcome {
            match kind {
                FileKind::Ctehexml => match ctehexml::parse(text) {
                    Ok(mut d) => {
                        merge_catalog(&mut d);
                        match Model::try_from(&d) {
                            Ok(_) => Outcome::Ok,
                            Err(_) => Outcome::Err,
                        }
                    }
                    Err(_) => Outcome::Err,
                },
                FileKind::Cte => match Data::new(text) {
                    Ok(bdldata) => {
                        let mut d = CtehexmlData { bdldata, ..Default::default() };
                        merge_catalog(&mut d);
                        match Model::try_from(&d) {
                            Ok(_) => Outcome::Ok,
                            Err(_) => Outcome::Err,
                        }
                    }
                    Err(_) => Outcome::Err,
                },
                FileKind::Kyg => match hulc::kyg::parse(text) {
                    Ok(_) => Outcome::Ok,
                    Err(_) => Outcome::Err,
                },
                FileKind::Tbl => {
                    // tbl::parse takes a path (Latin-1 file)
                    let bytes: Vec<u8> = text.chars().map(|c| if (c as u32) < 256 { c as u32 as u8 } else { b'?' }).collect();
                    let _ = std::fs::write(scratch, bytes);
                    match hulc::tbl::parse(scratch) {
                        Ok(_) => Outcome::Ok,
                        Err(_) => Outcome::Err,
                    }
                }
            }
        })
    }

    /// the whole export (collect_hulc_data with result files) on a project directory whose KyG / tbl is damaged
    fn run_project(&self, file: &std::path::Path, kind: FileKind, text: &str) -> Option<Result<Outcome, crate::panicx::PanicInfo>> {
        let dir = file.parent()?;
        let proj = std::fs::read_dir(dir).ok()?.flatten().map(|e| e.path()).find(|p| p.extension().map_or(false, |e| e == "ctehexml"))?;
        let scratch = crate::core::tmp_dir().join(format!("c19proj.{}", std::process::id()));
        let _ = std::fs::remove_dir_all(&scratch);
        std::fs::create_dir_all(&scratch).ok()?;
        std::fs::copy(&proj, scratch.join(proj.file_name()?)).ok()?;
        for other in ["KyGananciasSolares.txt", "NewBDL_O.tbl"] {
            let src = dir.join(other);
            if src.exists() {
                let _ = std::fs::copy(&src, scratch.join(other));
            }
        }
        let name = if kind == FileKind::Kyg { "KyGananciasSolares.txt" } else { "NewBDL_O.tbl" };
        let bytes: Vec<u8> = text.chars().map(|c| if (c as u32) < 256 { c as u32 as u8 } else { b'?' }).collect();
        std::fs::write(scratch.join(name), bytes).ok()?;
        let d = scratch.to_string_lossy().to_string();
        let r = guard(|| match hulc2model::collect_hulc_data(&d, true, true) {
            Ok(_) => Outcome::Ok,
            Err(_) => Outcome::Err,
        });
        let _ = std::fs::remove_dir_all(&scratch);
        Some(r)
    }

    fn locate(&self, case: &Case) -> (usize, usize) {
        let c = corpus();
        let total = *c.cum.last().unwrap_or(&0);
        let g = match case.tier {
            Tier::Thorough => case.index % total.max(1),
            Tier::Quick => {
                let mut rng = case.rng();
                // half of the quick budget goes to the small result files and to lines that carry a name or a number
                if rng.chance(0.25) {
                    let small: Vec<usize> = c.files.iter().enumerate().filter(|(_, f)| matches!(f.1, FileKind::Kyg | FileKind::Tbl)).map(|(i, _)| i).collect();
                    let fi = small[rng.usize(small.len())];
                    return (fi, rng.usize(c.files[fi].2.len().max(1)));
                }
                rng.below(total.max(1))
            }
        };
        let fi = c.cum.iter().position(|x| g < *x).unwrap_or(0);
        let start = if fi == 0 { 0 } else { c.cum[fi - 1] };
        (fi, (g - start) as usize)
    }
}

impl Property for C19 {
    fn id(&self) -> &'static str {
        "C19"
    }
    fn level(&self, _tier: Tier) -> &'static str {
        "fault_enumeration"
    }
    fn rule(&self) -> String {
        format!("single-edit corruptions addressed by (file, line, edit kind) over the shipped corpus ({} files, {} lines): {:?}; thorough enumerates every line of every file x every applicable kind, quick a seeded slice; in addition a sampled (not exhaustive) workload damages generated projects (64 per seed: every block kind of the BDL generator in random layouts, generated VyP/GT/on-site/ventilation sections with every kind the format knows, half of the visits inside the system sections); each damaged text goes through ctehexml::parse + catalogue merge + Model::try_from (.ctehexml), Data::new + catalogue + try_from (.cte), kyg::parse, tbl::parse, and for KyG/tbl edits also through hulc2model::collect_hulc_data(dir, true, true); outcome in {{converted, rejected with error, panic (site captured), CPU budget exceeded = hang}}; non-trivial = distinct (file, line, kind) whose edit applies", corpus().files.len(), corpus().cum.last().copied().unwrap_or(0), EDITS)
    }
    fn assumptions(&self) -> Vec<String> {
        vec![
            "single edits only (the statement's scope)".into(),
            "the LIDER catalogue is parsed once per worker and cloned into each conversion (parse_with_catalog's own merge lines are input-independent)".into(),
            "a hang is decided on CPU time consumed by the isolated case (20 s, >1000x the slowest completed case), not on wall-clock".into(),
        ]
    }
    fn workloads(&self, tier: Tier) -> Vec<(String, u64)> {
        let total = corpus().cum.last().copied().unwrap_or(0);
        vec![("line".into(), tier.pick(3500, total)), ("generated-line".into(), tier.pick(700, 60_000))]
    }
    fn exhaustive(&self, tier: Tier) -> bool {
        tier == Tier::Thorough
    }
    fn required(&self, tier: Tier) -> Vec<(String, u64)> {
        let mut v: Vec<(String, u64)> = EDITS.iter().map(|e| (format!("edit:{}", e), if *e == "reference->own-block" { tier.pick(200, 10_000) } else { tier.pick(200, 50_000) })).collect();
        v.push(("outcome:converted".into(), 1000));
        v.push(("outcome:rejected".into(), 1000));
        v.push(("filekind:Ctehexml".into(), 500));
        v.push(("filekind:Cte".into(), 500));
        v.push(("filekind:Kyg".into(), 100));
        v.push(("filekind:Tbl".into(), 100));
        v.push(("whole_export_runs".into(), 100));
        v.push(("generated_system_section_lines_visited".into(), 200));
        v
    }
    fn time_cap_s(&self, tier: Tier) -> u64 {
        tier.pick(170, 9000)
    }
    fn cpu_budget_s(&self, _tier: Tier) -> Option<u64> {
        Some(20)
    }
    fn case_timeout_s(&self, tier: Tier) -> u64 {
        tier.pick(120, 300)
    }
    fn run_case(&self, case: &Case, obs: &mut Obs) {
        let c = corpus();
        if catalog().is_none() {
            obs.harness_error("the LIDER catalogue does not load".into());
            return;
        }
        // a generated project (every block kind of the BDL generator, generated system sections with every
        // kind the format knows) damaged at one seeded line
        let generated: (PathBuf, FileKind, Vec<String>);
        let (fi, line) = if case.kind == "generated-line" {
            let mut rng = case.rng();
            // 64 projects per seed, so that lines of one project are visited many times with different edits
            let mut prng = crate::rng::Rng::new(crate::rng::derive_seed(case.base_seed, "C19", "generated-project", rng.below(64)));
            let b = crate::gen::bdl::gen_building(&mut prng, &crate::gen::bdl::BuildCfg::full());
            let lay = if prng.chance(0.5) { crate::gen::bdl::Layout::hulc() } else { crate::gen::bdl::Layout::random(&mut prng) };
            let bdl = crate::gen::bdl::print_blocks(&mut prng, &b.blocks(), &lay);
            let (extra, sys, _) = crate::gen::sysxml::gen_systems(&mut prng, &b.space_names(), false);
            let full = b.ctehexml_ext(&bdl, &extra, &sys);
            let lines: Vec<String> = full.lines().map(|l| l.to_string()).collect();
            let n = lines.len();
            // the system sections are short next to the BDL text: give them half of the visits
            let first_sys = lines.iter().position(|l| l.contains("<Definicion_Sistema")).unwrap_or(n);
            // ... and the production / ventilation records of <DatosGenerales> a share of their own
            let records: Vec<usize> = lines.iter().enumerate().filter(|(_, l)| l.contains("<valoresMensuales") || l.contains("<datosVentilacion") || l.contains("<valMen")).map(|(i, _)| i).collect();
            let line = if !records.is_empty() && rng.chance(0.12) {
                obs.count("generated_general_data_record_lines_visited");
                records[rng.usize(records.len())]
            } else if first_sys < n && rng.chance(0.5) {
                first_sys + rng.usize(n - first_sys)
            } else {
                rng.usize(n.max(1))
            };
            generated = (PathBuf::from(format!("generated-project-{}.ctehexml", prng.below(1_000_000))), FileKind::Ctehexml, lines);
            obs.count("generated_lines_visited");
            if line >= first_sys {
                obs.count("generated_system_section_lines_visited");
            }
            (usize::MAX, line)
        } else {
            generated = (PathBuf::new(), FileKind::Cte, vec![]);
            self.locate(case)
        };
        let (path, kind, lines) = if fi == usize::MAX { &generated } else { &c.files[fi] };
        if lines.is_empty() {
            return;
        }
        let line = line.min(lines.len() - 1);
        let fname = path.file_name().unwrap().to_string_lossy().to_string();
        let crlf = false;
        let scratch = crate::core::tmp_dir().join(format!("c19.{}.tbl", std::process::id()));
        for k in 0..EDITS.len() {
            let text = match damage(lines, line, k, crlf) {
                Some(t) => t,
                None => {
                    obs.count("edit_not_applicable_here");
                    continue;
                }
            };
            obs.eval();
            obs.count(&format!("edit:{}", EDITS[k]));
            obs.count(&format!("filekind:{:?}", kind));
            obs.nontrivial(crate::rng::fnv64(format!("{}{}{}{}", fi, fname, line, k).as_bytes()));
            obs.note(&format!("{:?}:{}", kind, EDITS[k]), &format!("file={} line={} edit={} text={:?}", fname, line + 1, EDITS[k], lines[line].trim().chars().take(80).collect::<String>()));
            let ctx = || json!({"file": fname, "line": line + 1, "edit": EDITS[k], "original_line": lines[line]});
            match self.run_one(*kind, &text, &scratch) {
                Ok(Outcome::Ok) => obs.count("outcome:converted"),
                Ok(Outcome::Err) => obs.count("outcome:rejected"),
                Err(p) => {
                    obs.count("outcome:panic");
                    obs.panic_violation(&p, ctx());
                }
            }
            if matches!(kind, FileKind::Kyg | FileKind::Tbl) {
                if let Some(r) = self.run_project(path, *kind, &text) {
                    obs.eval();
                    obs.count("whole_export_runs");
                    if let Err(p) = r {
                        obs.count("outcome:panic");
                        obs.panic_violation(&p, json!({"via": "hulc2model::collect_hulc_data(dir, true, true)", "file": fname, "line": line + 1, "edit": EDITS[k], "original_line": lines[line]}));
                    }
                }
            }
            if crate::tables_poisoned() {
                return;
            }
        }
        let _ = std::fs::remove_file(&scratch);
        if obs.samples.len() < 3 {
            obs.sample(json!({"file": fname, "line": line + 1, "original_line": lines[line].trim(), "edits_tried": EDITS}));
        }
    }
    fn extra_evidence(&self, agg: &Obs) -> Value {
        json!({"exhaustive_scope": "the flag refers to the (file, line, edit kind) space of the shipped corpus only; the generated-project workload is sampled", "lines_in_corpus": corpus().cum.last(), "files_in_corpus": corpus().files.len(), "hang_verdicts": agg.counters.get("hang_verdicts")})
    }
}
