//! C14 Indicator computation is total: never crashes or hangs, finite on sane models

use std::sync::Mutex;

use bemodel::energy::EnergyIndicators;
use bemodel::{BoundaryType, Model, Point2, Point3, Shade, Space, Uuid, Wall, WallCons, WallGeom, WinCons, WinGeom, Window};
use serde_json::{json, Value};

use crate::convert::{convert_path, Conv};
use crate::core::{Case, Obs, Property, Tier};
use crate::gen::jsonmut::mutate_once;
use crate::gen::model::{gen_model, uuid, GenCfg};
use crate::oracle::links::{insane_reason, is_closed};
use crate::panicx::guard;
use crate::rng::Rng;

pub struct C14;

/// "NaN" / "inf" as whole tokens of a Debug text
fn nonfinite_token(dbg: &str) -> Option<String> {
    let b = dbg.as_bytes();
    for tok in ["NaN", "inf"] {
        let mut from = 0;
        while let Some(pos) = dbg[from..].find(tok) {
            let i = from + pos;
            let before_ok = i == 0 || matches!(b[i - 1], b' ' | b'(' | b'[' | b'-' | b':');
            let after = b.get(i + tok.len()).copied().unwrap_or(b' ');
            let after_ok = matches!(after, b',' | b')' | b' ' | b']' | b'}');
            if before_ok && after_ok {
                // name of the field: last `ident:` before the token
                let head = &dbg[..i];
                let field = head.rsplit(|c: char| c == ' ' || c == '{' || c == '(' || c == ',').find(|t| t.ends_with(':')).unwrap_or("?").trim_end_matches(':').to_string();
                return Some(field);
            }
            from = i + tok.len();
        }
    }
    None
}

static BASELINE: Mutex<Option<(Model, String)>> = Mutex::new(None);

fn baseline() -> Option<(Model, String)> {
    let mut g = BASELINE.lock().unwrap_or_else(|e| e.into_inner());
    if g.is_none() {
        let f = crate::corpus::model_json_files().into_iter().find(|p| p.file_name().map_or(false, |n| n == "cubo.json"))?;
        let m = crate::gen::model::load_model(&f)?;
        let ind = guard(|| m.energy_indicators()).ok()?;
        let v = serde_json::to_value(&ind).ok()?;
        *g = Some((m, v.to_string()));
    }
    g.clone()
}

impl C14 {
    /// Computes the indicators of `m` under the monitors. `label` classifies the input for signatures.
    fn observe(&self, m: &Model, origin: &str, label: &str, obs: &mut Obs, detail: Value) {
        obs.eval();
        let base = baseline();
        let closed = is_closed(m);
        let sane = if closed { insane_reason(m) } else { Some("not closed".into()) };
        let r = guard(|| m.energy_indicators());
        let failed = r.is_err();
        match r {
            Err(p) => {
                obs.count("panics");
                obs.panic_violation(&p, json!({"origin": origin, "input_class": label, "edits": detail, "model_json": m.as_json().ok().map(|j| if j.len() < 20000 { j } else { format!("{}…", &j[..20000]) })}));
                if crate::tables_poisoned() {
                    obs.violation(
                        &format!("history:climate-table-lock-poisoned-by:{}", p.signature()),
                        format!("{}: after the failure the process-wide radiation table is poisoned; later computations in this process fail", origin),
                        json!({"first_failure": p.describe()}),
                    );
                }
            }
            Ok(ind) => {
                obs.count("results");
                self.check_result(m, &ind, origin, closed, &sane, obs, &detail);
            }
        }
        // history independence: the fixed baseline model still gives its known result
        if failed || obs.evaluations % 25 == 0 {
            if let Some((bm, want)) = base {
                obs.count("baseline_recomputations");
                match guard(|| bm.energy_indicators()) {
                    Ok(ind) => {
                        let got = serde_json::to_value(&ind).map(|v| v.to_string()).unwrap_or_default();
                        if got != want {
                            obs.violation("history:baseline-result-changed", format!("after {}, the indicators of cubo.json differ from their value at process start", origin), json!({}));
                        }
                    }
                    Err(p) => {
                        obs.violation(
                            &format!("history:baseline-fails-after-earlier-failure:{}", p.signature()),
                            format!("after {}, computing the untouched cubo.json fails: {}", origin, p.describe()),
                            json!({}),
                        );
                    }
                }
            }
        }
    }

    fn check_result(&self, m: &Model, ind: &EnergyIndicators, origin: &str, closed: bool, sane: &Option<String>, obs: &mut Obs, detail: &Value) {
        if closed && sane.is_none() {
            obs.count("sane_closed_models");
            obs.nontrivial(crate::rng::fnv64(format!("{}{}{}", origin, ind.K_data.K, ind.area_ref).as_bytes()));
            let dbg = format!("{:?}", (ind.area_ref, ind.compactness, ind.vol_env_net, ind.vol_env_gross, &ind.props, &ind.K_data, &ind.q_soljul_data, &ind.n50_data));
            if let Some(field) = nonfinite_token(&dbg) {
                obs.violation(
                    &format!("non-finite-result-on-sane-model:{}", field),
                    format!("{}: a closed model with positive sizes reports a non-finite `{}`", origin, field),
                    json!({"edits": detail, "model_json": m.as_json().ok().map(|j| if j.len() < 30000 { j } else { format!("{}…", &j[..30000]) })}),
                );
                return;
            }
            match ind.as_json() {
                Ok(j) => match serde_json::from_str::<EnergyIndicators>(&j) {
                    Ok(_) => obs.count("results_loaded_back"),
                    Err(e) => obs.violation("result-json-does-not-load-back", format!("{}: EnergyIndicators::as_json() does not load back: {}", origin, e), json!({"edits": detail})),
                },
                Err(e) => obs.violation("result-does-not-serialise", format!("{}: as_json failed: {}", origin, e), json!({})),
            }
        } else {
            obs.count(&format!("not_sane:{}", sane.clone().unwrap_or_default()));
            obs.nontrivial(crate::rng::fnv64(format!("{}{:?}", origin, detail).as_bytes()));
        }
    }

    fn base_models(&self) -> Vec<std::path::PathBuf> {
        let mut v = crate::corpus::model_json_files();
        // a few converted projects of moderate size
        for f in crate::corpus::ctehexml_files() {
            let n = f.file_name().unwrap().to_string_lossy().to_string();
            if ["cubo.ctehexml", "casoa.ctehexml", "ejemploviv_unif.ctehexml"].contains(&n.to_lowercase().as_str()) {
                v.push(f);
            }
        }
        v
    }

    fn mutant(&self, rng: &mut Rng, case: &Case, obs: &mut Obs) {
        // base: shipped / converted / generated
        let bases = self.base_models();
        let (origin, base_json): (String, String) = if rng.chance(0.45) {
            let f = &bases[rng.usize(bases.len())];
            let name = f.file_name().unwrap().to_string_lossy().to_string();
            if name.ends_with(".json") {
                (name, crate::corpus::read_utf8(f))
            } else {
                match convert_path(f) {
                    Conv::Ok(m) => (name, m.as_json().unwrap_or_default()),
                    _ => return,
                }
            }
        } else {
            let cfg = if rng.chance(0.5) { GenCfg::geometric() } else { GenCfg::small() };
            let m = gen_model(rng, &cfg).model;
            (format!("generated({})", case.index), m.as_json().unwrap_or_default())
        };
        let mut v: Value = match serde_json::from_str(&base_json) {
            Ok(v) => v,
            Err(_) => return,
        };
        let n_edits = 1 + rng.usize(3);
        let mut edits = vec![];
        for _ in 0..n_edits {
            if let Some((op, path)) = mutate_once(rng, &mut v) {
                obs.count(&format!("edit:{}", op));
                edits.push(format!("{} {}", op, path));
            }
        }
        let text = v.to_string();
        let m = match guard(|| Model::from_json(&text)) {
            Ok(Ok(m)) => m,
            Ok(Err(_)) => {
                obs.count("mutant_does_not_load");
                return;
            }
            Err(p) => {
                obs.panic_violation(&p, json!({"where": "Model::from_json", "edits": edits}));
                return;
            }
        };
        obs.count("mutants_loaded");
        self.observe(&m, &format!("{} + {:?}", origin, edits), "json-mutant", obs, json!(edits));
    }

    /// a model grown element by element the way the web editor does; indicators after every step
    fn editor(&self, rng: &mut Rng, case: &Case, obs: &mut Obs) {
        let mut m = Model::default();
        let mut steps: Vec<String> = vec![];
        let n = 3 + rng.usize(12);
        self.observe(&m, &format!("editor#{} step 0 (empty model)", case.index), "editor-sequence", obs, json!(steps));
        for step in 1..=n {
            let choice = rng.usize(9);
            let what = match choice {
                0 | 1 => {
                    m.spaces.push(Space { id: uuid(rng), ..Default::default() });
                    "add space"
                }
                2 | 3 => {
                    // a new wall: default geometry, bound to the first space / construction if any
                    let mut w = Wall { id: uuid(rng), ..Default::default() };
                    if let Some(s) = m.spaces.first() {
                        w.space = s.id;
                    }
                    if let Some(c) = m.cons.wallcons.first() {
                        w.cons = c.id;
                    }
                    w.bounds = *rng.pick(&[BoundaryType::EXTERIOR, BoundaryType::EXTERIOR, BoundaryType::GROUND, BoundaryType::INTERIOR, BoundaryType::ADIABATIC]);
                    if rng.chance(0.7) {
                        w.geometry = WallGeom {
                            tilt: *rng.pick(&[90.0f32, 0.0, 180.0]),
                            azimuth: rng.dec(-180.0, 180.0, 0) as f32,
                            position: if rng.chance(0.7) { Some(Point3::new(rng.dec(-5.0, 5.0, 1) as f32, rng.dec(-5.0, 5.0, 1) as f32, 0.0)) } else { None },
                            polygon: vec![Point2::new(0.0, 0.0), Point2::new(4.0, 0.0), Point2::new(4.0, 3.0), Point2::new(0.0, 3.0)],
                        };
                    }
                    m.walls.push(w);
                    "add wall"
                }
                4 | 5 => {
                    let mut w = Window { id: uuid(rng), ..Default::default() };
                    if let Some(wall) = m.walls.last() {
                        w.wall = wall.id;
                    }
                    if let Some(c) = m.cons.wincons.first() {
                        w.cons = c.id;
                    }
                    if rng.chance(0.6) {
                        w.geometry = WinGeom { position: Some(Point2::new(0.5, 0.5)), height: 1.2, width: 1.5, setback: if rng.chance(0.5) { 0.2 } else { 0.0 } };
                    }
                    m.windows.push(w);
                    "add window"
                }
                6 => {
                    m.cons.wallcons.push(WallCons { id: uuid(rng), ..Default::default() });
                    "add wall construction"
                }
                7 => {
                    m.cons.wincons.push(WinCons { id: uuid(rng), ..Default::default() });
                    "add window construction"
                }
                _ => {
                    let mut s = Shade { id: uuid(rng), ..Default::default() };
                    if rng.chance(0.7) {
                        s.geometry = WallGeom { tilt: 90.0, azimuth: 0.0, position: Some(Point3::new(0.0, -3.0, 0.0)), polygon: vec![Point2::new(0.0, 0.0), Point2::new(6.0, 0.0), Point2::new(6.0, 5.0), Point2::new(0.0, 5.0)] };
                    }
                    m.shades.push(s);
                    "add shade"
                }
            };
            steps.push(what.to_string());
            self.observe(&m, &format!("editor#{} step {} ({})", case.index, step, what), "editor-sequence", obs, json!(steps));
        }
    }

    fn special(&self, rng: &mut Rng, case: &Case, obs: &mut Obs) {
        let mut m = gen_model(rng, &GenCfg::geometric()).model;
        let which = case.index % 7;
        let label = match which {
            0 => {
                // many identical shades (more than the acceleration structure's leaf size)
                if let Some(s) = m.shades.first().cloned().or_else(|| {
                    Some(Shade { id: uuid(rng), name: "s".into(), geometry: WallGeom { tilt: 90.0, azimuth: 0.0, position: Some(Point3::new(0.0, -4.0, 0.0)), polygon: vec![Point2::new(0.0, 0.0), Point2::new(5.0, 0.0), Point2::new(5.0, 5.0), Point2::new(0.0, 5.0)] } })
                }) {
                    for _ in 0..(31 + rng.usize(40)) {
                        let mut c = s.clone();
                        c.id = uuid(rng);
                        m.shades.push(c);
                    }
                }
                "many-identical-shades"
            }
            1 => {
                // yearly schedules of different lengths used by occupied spaces
                for (i, y) in m.schedules.year.iter_mut().enumerate() {
                    if i % 2 == 0 {
                        y.values.truncate(1);
                        if let Some(v) = y.values.first_mut() {
                            v.1 = 100 + rng.below(200) as u32;
                        }
                    }
                }
                "yearly-schedules-of-different-length"
            }
            2 => {
                for d in m.schedules.day.iter_mut() {
                    if rng.chance(0.5) {
                        d.values.truncate(rng.usize(24));
                    }
                }
                "daily-schedules-with-fewer-than-24-values"
            }
            3 => {
                // remove daily schedules that weeks refer to
                let n = m.schedules.day.len();
                if n > 0 {
                    m.schedules.day.remove(rng.usize(n));
                }
                "missing-daily-schedule"
            }
            6 => {
                // daily schedules with more than 24 values (non-zero beyond the 24th)
                for d in m.schedules.day.iter_mut() {
                    if rng.chance(0.7) {
                        let extra = 1 + rng.usize(30);
                        for _ in 0..extra {
                            d.values.push(if rng.chance(0.7) { 1.0 } else { 0.0 });
                        }
                    }
                }
                "daily-schedules-with-more-than-24-values"
            }
            4 => {
                for w in m.walls.iter_mut() {
                    if rng.chance(0.3) {
                        w.geometry.polygon.truncate(rng.usize(3));
                    }
                }
                "degenerate-polygons"
            }
            _ => {
                // every obstacle on one point: coinciding centres
                let p = Point3::new(1.0, 1.0, 1.0);
                for s in m.shades.iter_mut() {
                    s.geometry.position = Some(p);
                }
                let proto = Shade { id: uuid(rng), name: "c".into(), geometry: WallGeom { tilt: 90.0, azimuth: 30.0, position: Some(p), polygon: vec![Point2::new(-1.0, -1.0), Point2::new(1.0, -1.0), Point2::new(1.0, 1.0), Point2::new(-1.0, 1.0)] } };
                for _ in 0..40 {
                    let mut c = proto.clone();
                    c.id = uuid(rng);
                    m.shades.push(c);
                }
                "obstacles-with-coinciding-centres"
            }
        };
        obs.count(&format!("special:{}", label));
        self.observe(&m, &format!("special#{} ({})", case.index, label), label, obs, json!([label]));
    }
}

impl Property for C14 {
    fn id(&self) -> &'static str {
        "C14"
    }
    fn rule(&self) -> String {
        "models reachable from the 7 shipped, 3 converted and generated models by 1..3 structural edits of the JSON tree (delete key / array item, empty / duplicate / truncate array, redirect an id to nil / fresh / wrong-kind id, zero or negate a number), minimal models grown element by element from the empty model (indicators after every step), and special families (>= 31 identical shades, obstacles with one common centre, schedules of inconsistent length, missing daily schedules, degenerate polygons); each computed under catch_unwind with panic-site capture, per-case watchdog, poisoned-table probe and periodic recomputation of a fixed baseline model in the same process; for inputs the harness's own walk finds closed with positive sizes: every number of the result finite (Debug-text scan) and as_json() loads back; non-trivial = distinct (origin, edits) whose model loads".into()
    }
    fn assumptions(&self) -> Vec<String> {
        vec![
            "'hang' is decided by the BVH node-bound hook (logical steps) where a loop exists; any other overrun is caught by the per-case wall-clock watchdog and reported inconclusive, not as a violation".into(),
            "saneness of the input is decided by the harness (closure walk + positivity predicates), independently of bemodel::check".into(),
        ]
    }
    fn workloads(&self, tier: Tier) -> Vec<(String, u64)> {
        vec![("mutant".into(), tier.pick(15_000, 300_000)), ("editor".into(), tier.pick(750, 10_000)), ("special".into(), tier.pick(360, 3000)), ("sane-generated".into(), tier.pick(900, 10_000))]
    }
    fn required(&self, _tier: Tier) -> Vec<(String, u64)> {
        vec![
            ("mutants_loaded".into(), 1500),
            ("sane_closed_models".into(), 300),
            ("results_loaded_back".into(), 300),
            ("baseline_recomputations".into(), 50),
            ("edit:delete-key".into(), 100),
            ("edit:redirect-id".into(), 100),
            ("edit:empty-array".into(), 100),
            ("edit:duplicate-item".into(), 100),
            ("edit:truncate-array".into(), 100),
            ("edit:zero-number".into(), 100),
            ("edit:negate-number".into(), 100),
            ("special:many-identical-shades".into(), 5),
            ("special:obstacles-with-coinciding-centres".into(), 5),
        ]
    }
    fn time_cap_s(&self, tier: Tier) -> u64 {
        tier.pick(170, 2700)
    }
    fn run_case(&self, case: &Case, obs: &mut Obs) {
        let mut rng = case.rng();
        match case.kind {
            "mutant" => self.mutant(&mut rng, case, obs),
            "editor" => self.editor(&mut rng, case, obs),
            "special" => self.special(&mut rng, case, obs),
            _ => {
                let cfg = if rng.chance(0.5) { GenCfg::geometric() } else { GenCfg::small() };
                let mut m = gen_model(&mut rng, &cfg).model;
                for t in m.thermal_bridges.iter_mut() {
                    t.l = t.l.abs();
                }
                crate::gen::model::vary_outlines(&mut rng, &mut m, 0.15);
                self.observe(&m, &format!("sane-generated#{}", case.index), "generated-closed-sane", obs, json!([]));
            }
        }
        if obs.samples.len() < 3 && case.kind == "mutant" {
            obs.sample(json!({"kind": case.kind, "index": case.index, "note": "see counters edit:* for the edit mix"}));
        }
    }
    fn extra_evidence(&self, agg: &Obs) -> Value {
        json!({"bvh_hook": "build path counters are reported by C13; here the node bound turns a non-terminating build into a panic", "panics_observed": agg.counters.get("panics").copied().unwrap_or(0)})
    }
}

#[allow(dead_code)]
fn _u(_: Uuid) {}
