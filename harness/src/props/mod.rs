use crate::core::Property;

pub mod c01;
pub mod c02;
pub mod c03;
pub mod c04;
pub mod c05;
pub mod c06;
pub mod c07;
pub mod c12;
pub mod c13;
pub mod c14;
pub mod c15_16;
pub mod c17;
pub mod c18;
pub mod c19;
pub mod c20;
pub mod indic;

pub fn registry() -> Vec<Box<dyn Property>> {
    vec![
        Box::new(c01::C01),
        Box::new(c02::C02),
        Box::new(c03::C03),
        Box::new(c04::C04),
        Box::new(c05::C05),
        Box::new(c06::C06),
        Box::new(c07::C07),
        Box::new(indic::C08),
        Box::new(indic::C09),
        Box::new(indic::C10),
        Box::new(indic::C11),
        Box::new(c12::C12),
        Box::new(c13::C13),
        Box::new(c14::C14),
        Box::new(c15_16::C15),
        Box::new(c15_16::C16),
        Box::new(c17::C17),
        Box::new(c18::C18),
        Box::new(c19::C19),
        Box::new(c20::C20),
    ]
}
