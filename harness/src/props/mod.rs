use crate::core::Property;

pub mod c07;

pub fn registry() -> Vec<Box<dyn Property>> {
    vec![Box::new(c07::C07)]
}
