use crate::core::Property;

pub mod c06;
pub mod c07;

pub fn registry() -> Vec<Box<dyn Property>> {
    vec![Box::new(c06::C06), Box::new(c07::C07)]
}
