//! C15 The model checker reports exactly the broken links
//! C16 Purging removes exactly the unreachable items and changes no indicator

use std::collections::{BTreeMap, HashSet};

use bemodel::{Model, Uuid, WarningLevel};
use serde_json::json;

use crate::convert::{convert_path, real_project_files, Conv};
use crate::core::{Case, Obs, Property, Tier};
use crate::gen::model::{break_links, gen_model, load_model, uuid, GenCfg, LinkKind};
use crate::oracle::links::{broken_links, Link};
use crate::panicx::guard;
use crate::rng::Rng;

fn real_count() -> u64 {
    (crate::corpus::model_json_files().len() + real_project_files().len()) as u64
}
fn real_model(index: u64, obs: &mut Obs) -> Option<(String, Model)> {
    let js = crate::corpus::model_json_files();
    if (index as usize) < js.len() {
        let f = &js[index as usize];
        return load_model(f).map(|m| (f.file_name().unwrap().to_string_lossy().to_string(), m));
    }
    let files = real_project_files();
    let f = &files[index as usize - js.len()];
    match convert_path(f) {
        Conv::Ok(m) => Some((f.file_name().unwrap().to_string_lossy().to_string(), m)),
        _ => {
            obs.count("real_project_not_converted");
            None
        }
    }
}

// =======================================================================================
pub struct C15;

impl Property for C15 {
    fn id(&self) -> &'static str {
        "C15"
    }
    fn rule(&self) -> String {
        "generated models with a random subset of wall->space, wall->construction, wall->adjacent space, window->wall, window->construction links redirected to absent or nil ids and a random subset of bridge lengths negated (-0.0 never generated), plus closed generated and real models; expected multiset of warning ids = the harness's own link walk; also: model Debug text unchanged by check(), energy_indicators().warnings == check(); non-trivial = distinct model with at least one broken link or negative length".into()
    }
    fn assumptions(&self) -> Vec<String> {
        vec!["links the statement does not list (layer->material, construction->glazing/frame, space->loads, schedules) are not required to produce warnings and are left intact in this workload".into()]
    }
    fn workloads(&self, tier: Tier) -> Vec<(String, u64)> {
        vec![("real".into(), real_count()), ("closed".into(), tier.pick(900, 20_000)), ("broken".into(), tier.pick(7500, 200_000)), ("warnings-with-indicators".into(), tier.pick(360, 6000))]
    }
    fn required(&self, _tier: Tier) -> Vec<(String, u64)> {
        vec![
            ("link:WallSpace".into(), 100),
            ("link:WallCons".into(), 100),
            ("link:WallNext".into(), 50),
            ("link:WallNext(non-interior wall)".into(), 20),
            ("link:WinWall".into(), 50),
            ("link:WinCons".into(), 50),
            ("negative_bridge".into(), 100),
            ("negative_bridge_below_rounding".into(), 30),
            ("models_without_any_construction_data".into(), 20),
            ("models_without_any_wall".into(), 20),
            ("closed_models".into(), 100),
            ("nil_targets".into(), 100),
        ]
    }
    fn run_case(&self, case: &Case, obs: &mut Obs) {
        let mut rng = case.rng();
        let (origin, m) = match case.kind {
            "real" => match real_model(case.index, obs) {
                Some(x) => x,
                None => return,
            },
            "closed" => {
                let mut m = gen_model(&mut rng, &GenCfg::small()).model;
                for t in m.thermal_bridges.iter_mut() {
                    t.l = t.l.abs();
                }
                (format!("closed#{}", case.index), m)
            }
            _ => {
                let mut m = gen_model(&mut rng, &GenCfg::small()).model;
                let p = *rng.pick(&[0.02, 0.1, 0.3, 0.8]);
                let kinds = [LinkKind::WallSpace, LinkKind::WallCons, LinkKind::WallNext, LinkKind::WinWall, LinkKind::WinCons];
                // random subset of the link kinds
                let sel: Vec<LinkKind> = kinds.iter().filter(|_| rng.chance(0.7)).cloned().collect();
                // adjacent-space references also occur on non-interior walls (valid or not)
                let space_ids: Vec<Uuid> = m.spaces.iter().map(|s| s.id).collect();
                for w in m.walls.iter_mut() {
                    if w.next_to.is_none() && rng.chance(0.06) && !space_ids.is_empty() {
                        w.next_to = Some(space_ids[rng.usize(space_ids.len())]);
                    }
                }
                break_links(&mut rng, &mut m, p, &sel);
                // no opaque elements at all (a model being assembled: windows and bridges first): every window's wall link is broken
                if rng.chance(0.03) {
                    m.walls.clear();
                    obs.count("models_without_any_wall");
                }
                // the construction data base missing altogether (a geometry-only file): every construction link is broken
                if rng.chance(0.03) {
                    m.cons = bemodel::ConsDb::default();
                    obs.count("models_without_any_construction_data");
                }
                for t in m.thermal_bridges.iter_mut() {
                    if t.l == 0.0 {
                        t.l = 0.0; // normalise -0.0 away: outside "negative length"
                    }
                    if rng.chance(0.3) && t.l > 0.0 {
                        // negative lengths of every size, also ones that vanish when rounded to 2 decimals
                        t.l = if rng.chance(0.3) { -*rng.pick(&[0.004f32, 0.001, 1e-6, 0.0049, 0.01]) } else { -t.l };
                        if t.l > -0.005 {
                            obs.count("negative_bridge_below_rounding");
                        }
                    }
                }
                (format!("{}#{}", case.kind, case.index), m)
            }
        };
        obs.eval();
        let before = format!("{:?}", m);
        let warnings = match guard(|| bemodel::check(&m)) {
            Ok(w) => w,
            Err(p) => {
                obs.panic_violation(&p, json!({"where": "bemodel::check", "origin": origin}));
                return;
            }
        };
        if format!("{:?}", m) != before {
            obs.violation("check-modified-the-model", format!("{}: model differs after check()", origin), json!({}));
        }
        // expected multiset of ids
        let mut expected: BTreeMap<Uuid, u32> = BTreeMap::new();
        let mut any = false;
        for b in broken_links(&m) {
            let name = match b.link {
                Link::WallSpace => "WallSpace",
                Link::WallCons => "WallCons",
                Link::WallNext => {
                    if m.walls.iter().any(|w| w.id == b.owner && w.bounds != bemodel::BoundaryType::INTERIOR) {
                        obs.count("link:WallNext(non-interior wall)");
                    }
                    "WallNext"
                }
                Link::WinWall => "WinWall",
                Link::WinCons => "WinCons",
                _ => continue,
            };
            obs.count(&format!("link:{}", name));
            if b.target.is_nil() {
                obs.count("nil_targets");
            }
            *expected.entry(b.owner).or_insert(0) += 1;
            any = true;
        }
        for t in &m.thermal_bridges {
            if t.l < 0.0 {
                obs.count("negative_bridge");
                *expected.entry(t.id).or_insert(0) += 1;
                any = true;
            }
        }
        if any {
            obs.nontrivial_str(&format!("{}{:?}", origin, expected));
        } else {
            obs.count("closed_models");
            if case.kind == "closed" || case.kind == "real" {
                obs.nontrivial_str(&origin);
            }
        }
        let mut got: BTreeMap<Uuid, u32> = BTreeMap::new();
        for w in &warnings {
            match w.id {
                Some(id) => *got.entry(id).or_insert(0) += 1,
                None => obs.violation("warning-without-element-id", format!("{}: warning without id: {}", origin, w.msg), json!({})),
            }
            if w.level != WarningLevel::WARNING {
                obs.violation("warning-level", format!("{}: warning level {:?}", origin, w.level), json!({"msg": w.msg}));
            }
        }
        if got != expected {
            let missing: Vec<String> = expected.iter().filter(|(k, n)| got.get(*k).copied().unwrap_or(0) < **n).map(|(k, n)| format!("{} x{}", k, n)).take(5).collect();
            let extra: Vec<String> = got.iter().filter(|(k, n)| expected.get(*k).copied().unwrap_or(0) < **n).map(|(k, n)| format!("{} x{}", k, n)).take(5).collect();
            // classify by the kind of the first discrepancy
            let kind = if !missing.is_empty() { "missing-warning" } else { "unexpected-warning" };
            let which = if let Some(id) = expected.keys().find(|k| got.get(*k) != expected.get(*k)).or(got.keys().find(|k| got.get(*k) != expected.get(*k))) {
                if m.walls.iter().any(|w| w.id == *id) {
                    "wall"
                } else if m.windows.iter().any(|w| w.id == *id) {
                    "window"
                } else if m.thermal_bridges.iter().any(|w| w.id == *id) {
                    "thermal-bridge"
                } else {
                    "other-element"
                }
            } else {
                "?"
            };
            obs.violation(
                &format!("checker:{}:{}", kind, which),
                format!("{}: warnings differ from the broken links: missing {:?}, unexpected {:?} ({} warnings, {} expected)", origin, missing, extra, warnings.len(), expected.values().sum::<u32>()),
                json!({"warnings": warnings.iter().map(|w| w.msg.clone()).take(12).collect::<Vec<_>>()}),
            );
        }
        if case.kind == "warnings-with-indicators" {
            match guard(|| m.energy_indicators()) {
                Ok(ind) => {
                    obs.count("indicator_warning_lists_compared");
                    let a: Vec<String> = ind.warnings.iter().map(|w| format!("{:?}{:?}{}", w.level, w.id, w.msg)).collect();
                    let b: Vec<String> = warnings.iter().map(|w| format!("{:?}{:?}{}", w.level, w.id, w.msg)).collect();
                    if a != b {
                        obs.violation("indicator-warnings-differ-from-checker", format!("{}: energy_indicators().warnings has {} entries, check() {}", origin, a.len(), b.len()), json!({"indicators": a.iter().take(6).collect::<Vec<_>>(), "check": b.iter().take(6).collect::<Vec<_>>()}));
                    }
                }
                Err(_) => obs.count("indicators_panicked_on_broken_model(C14 domain)"),
            }
        }
        if obs.samples.len() < 3 && any {
            obs.sample(json!({"origin": origin, "broken_links_and_negative_bridges": expected.values().sum::<u32>(), "warnings": warnings.len(), "first_warning": warnings.first().map(|w| w.msg.clone())}));
        }
    }
}

// =======================================================================================
pub struct C16;

/// expected result of purging: the lists filtered by reachability, order preserved
fn purge_reference(m: &Model) -> Model {
    let mut r = m.clone();
    let used_spaces: HashSet<Uuid> = m.walls.iter().flat_map(|w| [Some(w.space), w.next_to]).flatten().collect();
    r.spaces.retain(|s| used_spaces.contains(&s.id));
    r.thermal_bridges.retain(|t| t.l != 0.0);
    let wc: HashSet<Uuid> = m.walls.iter().map(|w| w.cons).collect();
    r.cons.wallcons.retain(|c| wc.contains(&c.id));
    let wic: HashSet<Uuid> = m.windows.iter().map(|w| w.cons).collect();
    r.cons.wincons.retain(|c| wic.contains(&c.id));
    let mats: HashSet<Uuid> = r.cons.wallcons.iter().flat_map(|c| c.layers.iter().map(|l| l.material)).collect();
    r.cons.materials.retain(|x| mats.contains(&x.id));
    let gl: HashSet<Uuid> = r.cons.wincons.iter().map(|c| c.glass).collect();
    r.cons.glasses.retain(|x| gl.contains(&x.id));
    let fr: HashSet<Uuid> = r.cons.wincons.iter().map(|c| c.frame).collect();
    r.cons.frames.retain(|x| fr.contains(&x.id));
    let lo: HashSet<Uuid> = r.spaces.iter().filter_map(|s| s.loads).collect();
    r.loads.retain(|x| lo.contains(&x.id));
    let th: HashSet<Uuid> = r.spaces.iter().filter_map(|s| s.thermostat).collect();
    r.thermostats.retain(|x| th.contains(&x.id));
    let years: HashSet<Uuid> = r
        .loads
        .iter()
        .flat_map(|l| [l.people_schedule, l.equipment_schedule, l.lighting_schedule])
        .chain(r.thermostats.iter().flat_map(|t| [t.temp_max, t.temp_min, None]))
        .flatten()
        .collect();
    r.schedules.year.retain(|x| years.contains(&x.id));
    let weeks: HashSet<Uuid> = r.schedules.year.iter().flat_map(|y| y.values.iter().map(|v| v.0)).collect();
    r.schedules.week.retain(|x| weeks.contains(&x.id));
    let days: HashSet<Uuid> = r.schedules.week.iter().flat_map(|y| y.values.iter().map(|v| v.0)).collect();
    r.schedules.day.retain(|x| days.contains(&x.id));
    r
}

fn id_lists(m: &Model) -> Vec<(&'static str, Vec<Uuid>)> {
    vec![
        ("spaces", m.spaces.iter().map(|x| x.id).collect()),
        ("walls", m.walls.iter().map(|x| x.id).collect()),
        ("windows", m.windows.iter().map(|x| x.id).collect()),
        ("shades", m.shades.iter().map(|x| x.id).collect()),
        ("thermal_bridges", m.thermal_bridges.iter().map(|x| x.id).collect()),
        ("wallcons", m.cons.wallcons.iter().map(|x| x.id).collect()),
        ("wincons", m.cons.wincons.iter().map(|x| x.id).collect()),
        ("materials", m.cons.materials.iter().map(|x| x.id).collect()),
        ("glasses", m.cons.glasses.iter().map(|x| x.id).collect()),
        ("frames", m.cons.frames.iter().map(|x| x.id).collect()),
        ("loads", m.loads.iter().map(|x| x.id).collect()),
        ("thermostats", m.thermostats.iter().map(|x| x.id).collect()),
        ("schedules.year", m.schedules.year.iter().map(|x| x.id).collect()),
        ("schedules.week", m.schedules.week.iter().map(|x| x.id).collect()),
        ("schedules.day", m.schedules.day.iter().map(|x| x.id).collect()),
    ]
}

/// adds the structures that make purging hard: spaces that own no wall but are somebody's neighbour,
/// sharing, zero-length bridges
fn gen_purge_model(rng: &mut Rng) -> Model {
    let mut cfg = GenCfg::small();
    cfg.unused = true;
    let mut m = gen_model(rng, &cfg).model;
    // a shaft: a space without own walls that is the neighbour of somebody's partition
    if rng.chance(0.4) {
        let shaft = bemodel::Space { id: uuid(rng), name: "shaft".into(), height: 3.0, kind: bemodel::SpaceType::UNINHABITED, n_v: Some(1.0), loads: None, thermostat: None, ..Default::default() };
        let at = rng.usize(m.spaces.len() + 1);
        let sid = shaft.id;
        m.spaces.insert(at, shaft);
        let cands: Vec<usize> = m.walls.iter().enumerate().filter(|(_, w)| w.bounds == bemodel::BoundaryType::INTERIOR).map(|(i, _)| i).collect();
        if let Some(i) = cands.get(rng.usize(cands.len().max(1))) {
            m.walls[*i].next_to = Some(sid);
        }
    }
    // schedules used only by a thermostat, loads used by one space only
    if rng.chance(0.5) && !m.schedules.year.is_empty() && !m.thermostats.is_empty() {
        let extra = crate::gen::model::gen_schedules(rng, 1);
        let yid = extra.year[0].id;
        m.schedules.year.extend(extra.year);
        m.schedules.week.extend(extra.week);
        m.schedules.day.extend(extra.day);
        let i = rng.usize(m.thermostats.len());
        m.thermostats[i].temp_min = Some(yid);
    }
    // a weekly schedule that lists a daily schedule with 0 repetitions (an editor leaves such entries behind): the
    // day is referred to, hence reachable whenever the week is
    if rng.chance(0.3) && !m.schedules.week.is_empty() {
        let day = bemodel::ScheduleDay { id: uuid(rng), name: "dia sin repeticiones".into(), values: vec![0.5; 24] };
        let i = rng.usize(m.schedules.week.len());
        let at = rng.usize(m.schedules.week[i].values.len() + 1);
        m.schedules.week[i].values.insert(at, (day.id, 0));
        m.schedules.day.push(day);
    }
    // tiny but non-zero bridge lengths must survive
    for t in m.thermal_bridges.iter_mut() {
        if rng.chance(0.1) {
            t.l = *rng.pick(&[0.0f32, 1e-3, 1e-6, -0.5]);
        }
    }
    m
}

impl Property for C16 {
    fn id(&self) -> &'static str {
        "C16"
    }
    fn rule(&self) -> String {
        "generated models with unused items of every kind, sharing, chains that become removable in one call, spaces that own no wall but are the neighbour of a partition, zero and tiny bridge lengths, weekly schedules listing a day with 0 repetitions + real models; the id lists after purge_unused are compared (order included) with the harness's own reachability filter; purge twice = once; broken links after are a subset of those before; A_ref, volumes, K, n50, q_sol;jul equal before/after; non-trivial = distinct model from which the reference removes at least one item".into()
    }
    fn assumptions(&self) -> Vec<String> {
        vec!["override entries of removed elements are outside the statement and not checked".into()]
    }
    fn workloads(&self, tier: Tier) -> Vec<(String, u64)> {
        vec![("real".into(), real_count()), ("generated".into(), tier.pick(3600, 100_000)), ("with-indicators".into(), tier.pick(600, 8000))]
    }
    fn required(&self, _tier: Tier) -> Vec<(String, u64)> {
        let mut v: Vec<(String, u64)> = ["spaces", "thermal_bridges", "wallcons", "wincons", "materials", "glasses", "frames", "loads", "thermostats", "schedules.year", "schedules.week", "schedules.day"]
            .iter()
            .map(|k| (format!("removed:{}", k), 20))
            .collect();
        v.push(("space_kept_only_as_neighbour".into(), 20));
        v.push(("indicators_compared".into(), 100));
        v
    }
    fn run_case(&self, case: &Case, obs: &mut Obs) {
        let mut rng = case.rng();
        let (origin, m) = match case.kind {
            "real" => match real_model(case.index, obs) {
                Some(x) => x,
                None => return,
            },
            _ => (format!("{}#{}", case.kind, case.index), gen_purge_model(&mut rng)),
        };
        obs.eval();
        let expected = purge_reference(&m);
        let mut purged = m.clone();
        if let Err(p) = guard(|| {
            bemodel::purge_unused(&mut purged);
        }) {
            obs.panic_violation(&p, json!({"where": "purge_unused", "origin": origin}));
            return;
        }
        let owners: HashSet<Uuid> = m.walls.iter().map(|w| w.space).collect();
        if expected.spaces.iter().any(|s| !owners.contains(&s.id)) {
            obs.count("space_kept_only_as_neighbour");
        }
        let mut removed_any = false;
        for ((name, before), ((_, want), (_, got))) in id_lists(&m).into_iter().zip(id_lists(&expected).into_iter().zip(id_lists(&purged).into_iter())) {
            if want.len() < before.len() {
                obs.count(&format!("removed:{}", name));
                removed_any = true;
            }
            if want != got {
                let ws: HashSet<&Uuid> = want.iter().collect();
                let gs: HashSet<&Uuid> = got.iter().collect();
                let kind = if gs.iter().any(|g| !ws.contains(*g)) {
                    "unreachable-item-kept"
                } else if ws.iter().any(|w| !gs.contains(*w)) {
                    "reachable-item-removed"
                } else {
                    "order-changed"
                };
                obs.violation(
                    &format!("purge:{}:{}", kind, name),
                    format!("{}: {} after purge has {} items, expected {} ({} before)", origin, name, got.len(), want.len(), before.len()),
                    json!({"expected_ids": want.iter().map(|u| u.to_string()).take(20).collect::<Vec<_>>(), "got_ids": got.iter().map(|u| u.to_string()).take(20).collect::<Vec<_>>()}),
                );
            }
        }
        if removed_any {
            obs.nontrivial_str(&format!("{}{}", origin, id_lists(&expected).iter().map(|l| l.1.len()).sum::<usize>()));
        }
        // the surviving elements are untouched
        if format!("{:?}", purged.walls) != format!("{:?}", m.walls) || format!("{:?}", purged.windows) != format!("{:?}", m.windows) || format!("{:?}", purged.shades) != format!("{:?}", m.shades) || format!("{:?}", purged.meta) != format!("{:?}", m.meta) {
            obs.violation("purge:modified-surviving-elements", format!("{}: walls/windows/shades/meta differ after purge", origin), json!({}));
        }
        // idempotence
        let mut twice = purged.clone();
        let _ = guard(|| {
            bemodel::purge_unused(&mut twice);
        });
        if format!("{:?}", twice) != format!("{:?}", purged) {
            obs.violation("purge:not-idempotent", format!("{}: purging twice differs from purging once", origin), json!({}));
        }
        // no new broken link
        let key = |b: &crate::oracle::links::Broken| format!("{:?}{}{}", b.link, b.owner, b.target);
        let before: HashSet<String> = broken_links(&m).iter().filter(|b| !matches!(b.link, Link::OverrideWall | Link::OverrideWindow)).map(key).collect();
        for b in broken_links(&purged) {
            if matches!(b.link, Link::OverrideWall | Link::OverrideWindow) {
                continue;
            }
            if !before.contains(&key(&b)) {
                obs.violation(&format!("purge:introduced-broken-link:{:?}", b.link), format!("{}: link {:?} of {} to {} is broken after purge but was not before", origin, b.link, b.owner, b.target), json!({}));
                break;
            }
        }
        if case.kind != "generated" {
            let (a, b) = match (guard(|| m.energy_indicators()), guard(|| purged.energy_indicators())) {
                (Ok(a), Ok(b)) => (a, b),
                _ => {
                    obs.count("indicators_panicked(C14 domain)");
                    return;
                }
            };
            obs.count("indicators_compared");
            let pairs = [
                ("area_ref", a.area_ref, b.area_ref),
                ("vol_env_net", a.vol_env_net, b.vol_env_net),
                ("vol_env_gross", a.vol_env_gross, b.vol_env_gross),
                ("K", a.K_data.K, b.K_data.K),
                ("n50", a.n50_data.n50, b.n50_data.n50),
                ("n50_ref", a.n50_data.n50_ref, b.n50_data.n50_ref),
                ("q_soljul", a.q_soljul_data.q_soljul, b.q_soljul_data.q_soljul),
            ];
            for (name, x, y) in pairs {
                let same = (x.is_nan() && y.is_nan()) || x == y || ((x - y).abs() as f64) <= 1e-6 * (x.abs().max(y.abs()) as f64) + 1e-9;
                if !same {
                    obs.violation(&format!("purge:indicator-changed:{}", name), format!("{}: {} = {} before and {} after purge", origin, name, x, y), json!({}));
                }
            }
        }
        if obs.samples.len() < 3 && removed_any {
            obs.sample(json!({"origin": origin, "items_before": id_lists(&m).iter().map(|l| (l.0, l.1.len())).collect::<BTreeMap<_, _>>(), "items_after": id_lists(&purged).iter().map(|l| (l.0, l.1.len())).collect::<BTreeMap<_, _>>()}));
        }
    }
}
