//! C18 HULC file parsers recover every value that is written in the file

use hulc::bdl::{build_blocks, BdlBlock, BdlBlockType, Data};
use serde_json::json;

use crate::core::{Case, Obs, Property, Tier};
use crate::gen::bdl::{expected_parents, gen_building, many_vertex_shade, print_blocks, ABlock, ABuilding, AShade, AVal, BuildCfg, Layout, WallLoc};
use crate::panicx::guard;
use crate::rng::Rng;

pub struct C18;

fn type_name(t: BdlBlockType) -> &'static str {
    use BdlBlockType::*;
    match t {
        Floor => "FLOOR",
        Zone => "ZONE",
        Space => "SPACE",
        UndergroundWall => "UNDERGROUND-WALL",
        UndergroundFloor => "UNDERGROUND-FLOOR",
        InteriorWall => "INTERIOR-WALL",
        ExteriorWall => "EXTERIOR-WALL",
        Window => "WINDOW",
        Roof => "ROOF",
        Door => "DOOR",
        ThermalBridge => "THERMAL-BRIDGE",
        Construction => "CONSTRUCTION",
        Material => "MATERIAL",
        NameFrame => "NAME-FRAME",
        GlassType => "GLASS-TYPE",
        Layers => "LAYERS",
        Gap => "GAP",
        BuildingShade => "BUILDING-SHADE",
        Polygon => "POLYGON",
        RunPeriodPd => "RUN-PERIOD-PD",
        BuildParameters => "BUILD-PARAMETERS",
        DaySchedulePd => "DAY-SCHEDULE-PD",
        WeekSchedulePd => "WEEK-SCHEDULE-PD",
        SchedulePd => "SCHEDULE-PD",
        ScheduleDay => "SCHEDULE-DAY",
        ScheduleWeek => "SCHEDULE-WEEK",
        SystemConditions => "SYSTEM-CONDITIONS",
        SpaceConditions => "SPACE-CONDITIONS",
        Defectos => "DEFECTOS",
        GeneralData => "GENERAL-DATA",
        WorkSpace => "WORK-SPACE",
        AuxLine => "AUX-LINE",
        ParteLider => "PARTELIDER",
        DescriptionCondiction => "DESCRIPTION-CONDICTION",
        Description => "DESCRIPTION",
        System => "SYSTEM",
        Pump => "PUMP",
        CirculationLoop => "CIRCULATION-LOOP",
        Chiller => "CHILLER",
        Boiler => "BOILER",
        DwHeater => "DW-HEATER",
        HeatRejection => "HEAT-REJECTION",
        ElecGenerator => "ELEC-GENERATOR",
        GroundLoopHx => "GROUND-LOOP-HX",
        ElecMeter => "ELEC-METER",
        FuelMeter => "FUEL-METER",
        MasterMeters => "MASTER-METERS",
        Plane => "PLANE",
        LoadsReport => "LOADS-REPORT",
        SystemsReport => "SYSTEMS-REPORT",
        PlantReport => "PLANT-REPORT",
        ReportBlock => "REPORT-BLOCK",
        HourlyReport => "HOURLY-REPORT",
    }
}

/// numbers of a parenthesised list, read with the harness's own splitter
fn list_numbers(s: &str) -> Option<Vec<f32>> {
    let t = s.trim().trim_start_matches('(').trim_end_matches(')');
    t.split(',').map(|x| x.trim().parse::<f32>().ok()).collect()
}
/// quoted items of a parenthesised list
fn list_names(s: &str) -> Vec<String> {
    let mut out = vec![];
    let mut cur = String::new();
    let mut inq = false;
    for c in s.chars() {
        if c == '"' {
            if inq {
                out.push(cur.clone());
                cur.clear();
            }
            inq = !inq;
        } else if inq {
            cur.push(c);
        }
    }
    out
}

/// compares one parsed attribute with what was written; None = equal
fn attr_mismatch(parsed: Option<&hulc::bdl::AttrMap>, key: &str, want: &AVal) -> Option<String> {
    let got = parsed.and_then(|a| a.0.get(key));
    let got_s = got.map(|g| format!("{}", g));
    let is_num = got.map_or(false, |g| format!("{:?}", g).starts_with("Number"));
    match want {
        AVal::Num(v) => match (&got_s, is_num) {
            (Some(s), true) if s.parse::<f32>().ok() == Some(*v) => None,
            _ => Some(format!("{} written as number {} but parsed as {:?}", key, v, got)),
        },
        AVal::Str(w) | AVal::Word(w) => match (&got_s, is_num) {
            (Some(s), false) if s == w => None,
            _ => Some(format!("{} written as {:?} but parsed as {:?}", key, w, got)),
        },
        AVal::NumList(xs) => match &got_s {
            Some(s) if !is_num && list_numbers(s).as_deref() == Some(&xs[..]) => None,
            _ => Some(format!("{} written as list {:?} but parsed as {:?}", key, xs, got)),
        },
        AVal::IntList(xs) => match &got_s {
            Some(s) if !is_num && list_numbers(s).map(|v| v.iter().map(|x| *x as u32).collect::<Vec<_>>()).as_deref() == Some(&xs[..]) => None,
            _ => Some(format!("{} written as list {:?} but parsed as {:?}", key, xs, got)),
        },
        AVal::StrList(xs) => match &got_s {
            Some(s) if !is_num && list_names(s) == *xs => None,
            _ => Some(format!("{} written as list {:?} but parsed as {:?}", key, xs, got)),
        },
        AVal::P2(x, y) => match &got_s {
            Some(s) if list_numbers(s).as_deref() == Some(&[*x, *y][..]) => None,
            _ => Some(format!("{} written as point ({}, {}) but parsed as {:?}", key, x, y, got)),
        },
        AVal::Raw(w) => match &got_s {
            Some(s) if s == w => None,
            _ => Some(format!("{} written as {:?} but parsed as {:?}", key, w, got)),
        },
        AVal::P3(x, y, z) => match &got_s {
            Some(s) if list_numbers(s).as_deref() == Some(&[*x, *y, *z][..]) => None,
            _ => Some(format!("{} written as point ({}, {}, {}) but parsed as {:?}", key, x, y, z, got)),
        },
    }
}

fn close32(a: f32, b: f32) -> bool {
    a == b || (a - b).abs() <= 1e-6 * a.abs().max(b.abs())
}

/// free text as users type it into quoted values: the signs that mean something elsewhere in the format ($ starts a
/// comment line, = separates key and value, .. ends a block only on a line of its own) are ordinary characters inside quotes
fn text_value(rng: &mut Rng, prefix: &str) -> String {
    let base = crate::gen::bdl::db_name(rng, prefix);
    match rng.usize(8) {
        0 => format!("{} 12$/m2", base),
        1 => format!("{} (ref. $A) 150000$ PEM", base),
        2 => format!("{} 100% a=b", base),
        _ => base,
    }
}

impl C18 {
    /// random document: blocks of every supported type, random attribute subsets, random extra attributes
    fn document(&self, rng: &mut Rng, case: &Case, obs: &mut Obs) {
        let b = gen_building(rng, &BuildCfg::full());
        let all = b.blocks();
        let n = 1 + rng.usize(40);
        // a contiguous run keeps the nesting meaningful; plus a few blocks drawn at random
        let start = rng.usize(all.len());
        let mut blocks: Vec<ABlock> = all.iter().cycle().skip(start).take(n.min(all.len())).cloned().collect();
        // blocks written right after ground-contact walls and before any wall (legacy LIDER layouts)
        if rng.chance(0.4) {
            let at = rng.usize(blocks.len() + 1);
            let wname = crate::gen::bdl::ident(rng, "TER");
            blocks.insert(at, ABlock::new(&wname, if rng.chance(0.5) { "UNDERGROUND-WALL" } else { "UNDERGROUND-FLOOR" }).s("CONSTRUCTION", "solera tipo").w("LOCATION", "BOTTOM"));
            blocks.insert(at + 1, ABlock::new("solera tipo", "CONSTRUCTION").w("TYPE", "LAYERS").s("LAYERS", "solera tipo"));
            if rng.chance(0.5) {
                blocks.insert(at + 2, ABlock::new(&format!("{}_V", wname), "WINDOW").num("X", 0.5).num("Y", 0.5).num("HEIGHT", 1.0).num("WIDTH", 1.0).num("SETBACK", 0.0).s("GAP", "hueco"));
            }
        }
        for bl in blocks.iter_mut() {
            // random subset of the attributes
            if rng.chance(0.5) {
                // HULC never writes a named block without attributes: keep at least one
                let keep = rng.usize(bl.attrs.len().max(1));
                let mut i = 0;
                bl.attrs.retain(|_| {
                    i += 1;
                    i - 1 == keep || rng.chance(0.8)
                });
            }
            // extra attributes of every value kind
            for _ in 0..rng.usize(3) {
                let key = format!("X-{}", crate::gen::bdl::ident(rng, "K").to_uppercase());
                let val = match rng.usize(6) {
                    0 => AVal::Num(match rng.usize(4) {
                        0 => 0.0,
                        1 => -(rng.dec(0.0, 100.0, 3) as f32),
                        2 => rng.dec(0.0, 1e6, 0) as f32,
                        _ => rng.logu(1e-4, 1e4) as f32,
                    }),
                    1 => AVal::Str(text_value(rng, "N")),
                    2 => AVal::Word(["YES", "NO", "CONDITIONED", "SPACE-V12", "FULLY-MIXED"][rng.usize(5)].to_string()),
                    3 => AVal::NumList((0..1 + rng.usize(9)).map(|_| rng.dec(-10.0, 100.0, 3) as f32).collect()),
                    4 => AVal::StrList((0..1 + rng.usize(6)).map(|_| text_value(rng, "L")).collect()),
                    _ => AVal::Str(String::new()),
                };
                bl.attrs.push((key, val));
            }
        }
        // duplicate keys inside a block are not part of the format: keep the first
        for bl in blocks.iter_mut() {
            let mut seen = std::collections::HashSet::new();
            bl.attrs.retain(|(k, _)| seen.insert(k.clone()));
        }
        let mut lay = Layout::random(rng);
        // GENERAL-DATA is always the first block of a file (everything before it is HULC's loose preamble)
        if let Some(pos) = blocks.iter().position(|b| b.btype == "GENERAL-DATA") {
            let g = blocks.remove(pos);
            blocks.retain(|b| b.btype != "GENERAL-DATA");
            blocks.insert(0, g);
        } else if lay.legacy_preamble {
            blocks.insert(0, ABlock::new("DATOS GENERALES", "GENERAL-DATA").s("ZONE", "D3"));
        }
        if blocks.is_empty() {
            lay.legacy_preamble = false;
        }
        let text = print_blocks(rng, &blocks, &lay);
        let parents = expected_parents(&blocks);
        obs.eval();
        let parsed = match guard(|| build_blocks(&text)) {
            Ok(Ok(p)) => p,
            Ok(Err(e)) => {
                obs.violation("build_blocks-rejects-wellformed-document", format!("document#{}: {}", case.index, e.to_string().chars().take(200).collect::<String>()), json!({"text": text.chars().take(3000).collect::<String>(), "layout": format!("{:?}", lay)}));
                return;
            }
            Err(p) => {
                obs.panic_violation(&p, json!({"where": "build_blocks", "text": text.chars().take(3000).collect::<String>()}));
                return;
            }
        };
        let parsed: Vec<&BdlBlock> = parsed.iter().filter(|b| b.btype != BdlBlockType::ParteLider).collect();
        obs.nontrivial(crate::rng::fnv64(text.as_bytes()));
        obs.add("blocks_written", blocks.len() as u64);
        for f in [("crlf", lay.crlf), ("comments", lay.comments), ("multiline_lists", lay.multiline_lists), ("shuffled", lay.shuffle_attrs), ("legacy_preamble", lay.legacy_preamble), ("terminator_inline", lay.terminator_inline), ("bare_identifiers", lay.bare_identifiers), ("list_closed_on_own_line", lay.close_list_on_own_line)] {
            if f.1 {
                obs.count(&format!("layout:{}", f.0));
            }
        }
        let ctx = |i: usize| json!({"layout": format!("{:?}", lay), "block_written": format!("{:?}", blocks.get(i)), "block_parsed": format!("{:?}", parsed.get(i)), "text_head": text.chars().take(60000).collect::<String>()});
        if parsed.len() != blocks.len() {
            obs.violation("block-count", format!("document#{}: {} blocks written, {} parsed", case.index, blocks.len(), parsed.len()), ctx(0));
            return;
        }
        for (i, (w, p)) in blocks.iter().zip(parsed.iter()).enumerate() {
            obs.count(&format!("btype:{}", w.btype));
            if p.name != w.name {
                obs.violation("block-name", format!("block {} written as {:?} parsed as {:?}", i, w.name, p.name), ctx(i));
                return;
            }
            if type_name(p.btype) != w.btype {
                obs.violation("block-type", format!("block {:?} written as {} parsed as {:?}", w.name, w.btype, p.btype), ctx(i));
                return;
            }
            if p.parent != parents[i] {
                obs.violation(&format!("block-parent:{}", w.btype), format!("block {:?} ({}) should hang from {:?} but has parent {:?}", w.name, w.btype, parents[i], p.parent), ctx(i));
                return;
            }
            if p.attrs.0.len() != w.attrs.len() {
                obs.violation("attribute-count", format!("block {:?}: {} attributes written, {} parsed", w.name, w.attrs.len(), p.attrs.0.len()), ctx(i));
                return;
            }
            for (k, v) in &w.attrs {
                obs.count("attributes_compared");
                if let Some(m) = attr_mismatch(Some(&p.attrs), k, v) {
                    let kind = match v {
                        AVal::Num(_) => "number",
                        AVal::Str(_) => "string",
                        AVal::Word(_) => "word",
                        AVal::NumList(_) | AVal::IntList(_) => "number-list",
                        AVal::StrList(_) => "name-list",
                        AVal::Raw(_) => "raw",
                        _ => "point",
                    };
                    obs.violation(&format!("attribute-value:{}", kind), format!("block {:?} ({}): {}", w.name, w.btype, m), ctx(i));
                    return;
                }
            }
        }
        if obs.samples.len() < 2 {
            obs.sample(json!({"blocks": blocks.len(), "layout": format!("{:?}", lay), "text_head": text.chars().take(400).collect::<String>()}));
        }
    }

    /// a whole building: typed elements carry the written values (and documented defaults)
    fn typed(&self, rng: &mut Rng, case: &Case, obs: &mut Obs) {
        // half of the buildings in legacy form: attributes with a documented default left out
        let legacy = case.index % 2 == 1;
        let mut b = gen_building(rng, &BuildCfg { legacy_absent: legacy, ..BuildCfg::full() });
        // every third building also carries one or two shades with 10..=14 corners
        if case.index % 3 == 0 {
            for k in 0..1 + rng.usize(2) {
                b.shades.push(many_vertex_shade(rng, format!("SombraPoli{:02}", k)));
                obs.count("typed_shades_with_10_or_more_vertices");
            }
        }
        let blocks = b.blocks();
        let lay = if rng.chance(0.3) { Layout::hulc() } else { Layout::random(rng) };
        let text = print_blocks(rng, &blocks, &lay);
        obs.eval();
        for (_, a) in &b.omit {
            obs.count(&format!("legacy-absent:{}", a));
        }
        let d = match guard(|| Data::new(&text)) {
            Ok(Ok(d)) => d,
            Ok(Err(e)) => {
                obs.violation("Data-new-rejects-wellformed-building", format!("typed#{}: {}", case.index, e.to_string().chars().take(300).collect::<String>()), json!({"layout": format!("{:?}", lay), "text_head": text.chars().take(3000).collect::<String>()}));
                return;
            }
            Err(p) => {
                obs.panic_violation(&p, json!({"where": "Data::new", "text_head": text.chars().take(3000).collect::<String>()}));
                return;
            }
        };
        obs.nontrivial(crate::rng::fnv64(text.as_bytes()));
        self.compare_typed(&b, &d, case, obs);
    }

    fn compare_typed(&self, b: &ABuilding, d: &Data, case: &Case, obs: &mut Obs) {
        let mut bad = |what: &str, msg: String, obs: &mut Obs| {
            obs.violation(&format!("typed:{}", what), format!("typed#{}: {}", case.index, msg), json!({}));
        };
        // spaces
        let n_spaces: usize = b.floors.iter().map(|f| f.spaces.len()).sum();
        if d.spaces.len() != n_spaces {
            bad("space-count", format!("{} spaces written, {} in Data", n_spaces, d.spaces.len()), obs);
            return;
        }
        for f in &b.floors {
            for s in &f.spaces {
                obs.count("typed_spaces");
                let ds = match d.spaces.iter().find(|x| x.name == s.name) {
                    Some(x) => x,
                    None => {
                        bad("space-missing", format!("space {} not in Data", s.name), obs);
                        return;
                    }
                };
                let want_inside = s.inside.unwrap_or(s.stype == "CONDITIONED");
                let checks = [
                    ("space.floor", ds.floor == f.name),
                    ("space.height(storey height of its floor)", close32(ds.height, f.height)),
                    ("space.z(floor z + own level)", close32(ds.z, f.z + s.z)),
                    ("space.x", close32(ds.x, s.x)),
                    ("space.y", close32(ds.y, s.y)),
                    ("space.azimuth", close32(ds.angle_with_building_north, s.azimuth)),
                    ("space.type", ds.stype == s.stype),
                    ("space.inside_envelope", ds.insidete == want_inside),
                    ("space.multiplier", close32(ds.multiplier, s.multiplier) && close32(ds.floor_multiplier, f.multiplier)),
                    ("space.conditions(SPACE-TYPE where absent)", ds.spaceconds == s.conds && ds.systemconds == s.sysconds && ds.spacetype == s.spacetype),
                    ("space.lighting(POWER, VEEI-OBJ, VEEI-REF)", close32(ds.power, s.lighting.0) && close32(ds.veei_obj, s.lighting.1) && close32(ds.veei_ref, s.lighting.2)),
                    ("space.outline", ds.polygon.0.len() == s.outline.len() && ds.polygon.0.iter().zip(s.outline.iter()).all(|(p, q)| close32(p.x, q.0) && close32(p.y, q.1))),
                ];
                for (name, ok) in checks {
                    if !ok {
                        bad(name, format!("space {}: {} differs: written {:?} on floor {:?}, parsed {:?}", s.name, name, (s.x, s.y, s.azimuth, &s.stype, s.inside, s.multiplier, &s.conds), (f.z, f.height, f.multiplier), ds), obs);
                        return;
                    }
                }
                // ventilation rate: tightness classes of uninhabited spaces, else the written AIR-CHANGES/HR
                let want_ach = if s.stype == "UNHABITED" && s.conds.starts_with("NIVEL_ESTANQUEIDAD_") {
                    match s.conds.chars().last() {
                        Some('1') => Some(0.1),
                        Some('2') => Some(0.5),
                        Some('3') => Some(1.0),
                        Some('4') => Some(3.0),
                        _ => Some(10.0),
                    }
                } else {
                    s.air_changes
                };
                if ds.airchanges_h.map(|v| (v * 1000.0).round()) != want_ach.map(|v: f32| (v * 1000.0).round()) {
                    bad("space.air_changes", format!("space {}: air changes {:?}, expected {:?}", s.name, ds.airchanges_h, want_ach), obs);
                    return;
                }
                for w in &s.walls {
                    obs.count("typed_walls");
                    let dw = match d.walls.iter().find(|x| x.name == w.name) {
                        Some(x) => x,
                        None => {
                            bad("wall-missing", format!("wall {} not in Data", w.name), obs);
                            return;
                        }
                    };
                    let want_bounds = match (w.btype.as_str(), w.adiabatic) {
                        ("INTERIOR-WALL", true) => "ADIABATIC",
                        ("INTERIOR-WALL", false) => "INTERIOR",
                        ("UNDERGROUND-WALL", _) => "GROUND",
                        _ => "EXTERIOR",
                    };
                    let (want_loc, want_tilt, want_xyz, has_poly): (Option<String>, f32, (f32, f32, f32), bool) = match &w.loc {
                        WallLoc::Vertex(n) => (Some(format!("V{}", n)), if w.btype == "ROOF" { 0.0 } else { 90.0 }, (0.0, 0.0, 0.0), false),
                        WallLoc::Top => (Some("TOP".into()), 0.0, (0.0, 0.0, 0.0), false),
                        WallLoc::Bottom => (Some("BOTTOM".into()), 180.0, (0.0, 0.0, 0.0), false),
                        WallLoc::Poly { x, y, z, tilt, location_top, .. } => (if *location_top { Some("TOP".into()) } else { None }, if *location_top { 0.0 } else { *tilt }, (*x, *y, *z), true),
                    };
                    let want_cons = match w.btype.as_str() {
                        "INTERIOR-WALL" | "UNDERGROUND-WALL" => w.layers.clone(),
                        _ => format!("{}{:.2}", w.layers, w.absorptance),
                    };
                    let checks = [
                        ("wall.space", dw.space == s.name),
                        ("wall.bounds", format!("{:?}", dw.bounds) == want_bounds),
                        ("wall.construction", dw.cons == want_cons),
                        ("wall.location", dw.location == want_loc),
                        ("wall.tilt", close32(dw.tilt, want_tilt)),
                        ("wall.xyz", close32(dw.x, want_xyz.0) && close32(dw.y, want_xyz.1) && close32(dw.z, want_xyz.2)),
                        ("wall.next_to", dw.nextto == if want_bounds == "INTERIOR" { w.next_to.clone() } else { None }),
                        ("wall.polygon", dw.polygon.is_some() == has_poly),
                    ];
                    for (name, ok) in checks {
                        if !ok {
                            bad(name, format!("wall {}: {} differs: written {:?}, parsed {:?}", w.name, name, w, dw), obs);
                            return;
                        }
                    }
                    if let (WallLoc::Poly { polygon, azimuth, .. }, Some(dp)) = (&w.loc, &dw.polygon) {
                        let same = dp.0.len() == polygon.len() && dp.0.iter().zip(polygon.iter()).all(|(p, q)| close32(p.x, q.0) && close32(p.y, q.1));
                        if !same || !close32(dw.angle_with_space_north, *azimuth) {
                            bad("wall.own-polygon", format!("wall {}: polygon/azimuth differ: written {:?}, parsed {:?} az {}", w.name, w.loc, dp, dw.angle_with_space_north), obs);
                            return;
                        }
                    }
                    // the construction: layers + absorptance
                    match d.db.wallcons.get(&want_cons) {
                        None => {
                            bad("wallcons-missing", format!("construction {:?} of wall {} not in the data base", want_cons, w.name), obs);
                            return;
                        }
                        Some(c) => {
                            let lay = b.layers.iter().find(|l| l.name == w.layers).unwrap();
                            let mats = match lay.get("MATERIAL") {
                                Some(AVal::StrList(m)) => m.clone(),
                                _ => vec![],
                            };
                            let th = match lay.get("THICKNESS") {
                                Some(AVal::NumList(t)) => t.clone(),
                                _ => vec![],
                            };
                            // material names written with a double blank are normalised by the reader; none generated
                            if c.material != mats || c.thickness.len() != th.len() || !c.thickness.iter().zip(th.iter()).all(|(a, b)| close32(*a, *b)) {
                                bad("wallcons.layers", format!("construction {:?}: layers {:?}/{:?} written, {:?}/{:?} parsed", want_cons, mats, th, c.material, c.thickness), obs);
                                return;
                            }
                            if (w.btype == "EXTERIOR-WALL" || w.btype == "ROOF") && !close32(c.absorptance, w.absorptance) {
                                bad("wallcons.absorptance", format!("construction {:?}: absorptance {} written, {} parsed", want_cons, w.absorptance, c.absorptance), obs);
                                return;
                            }
                        }
                    }
                    for win in &w.windows {
                        obs.count("typed_windows");
                        let dwin = match d.windows.iter().find(|x| x.name == win.name) {
                            Some(x) => x,
                            None => {
                                bad("window-missing", format!("window {} not in Data", win.name), obs);
                                return;
                            }
                        };
                        let oh = dwin.overhang.as_ref().map(|o| (o.a, o.b, o.width, o.depth, o.angle));
                        let lf = dwin.left_fin.as_ref().map(|o| (o.a, o.b, o.height, o.depth));
                        let rf = dwin.right_fin.as_ref().map(|o| (o.a, o.b, o.height, o.depth));
                        let ok = dwin.wall == w.name && dwin.cons == win.gap && close32(dwin.x, win.x) && close32(dwin.y, win.y) && close32(dwin.width, win.w) && close32(dwin.height, win.h) && close32(dwin.setback, win.setback) && oh == win.overhang && lf == win.left_fin && rf == win.right_fin;
                        if !ok {
                            bad("window", format!("window {}: written {:?} on wall {}, parsed {:?}", win.name, win, w.name, dwin), obs);
                            return;
                        }
                    }
                }
            }
        }
        // data base
        for m in &b.materials {
            obs.count("typed_db_items");
            let dm = match d.db.materials.get(&m.name) {
                Some(x) => x,
                None => {
                    bad("material-missing", format!("material {:?} not in the data base", m.name), obs);
                    return;
                }
            };
            let num = |k: &str| match m.get(k) {
                Some(AVal::Num(v)) => Some(*v),
                _ => None,
            };
            let ok = if matches!(m.get("TYPE"), Some(AVal::Word(t)) if t == "PROPERTIES") {
                dm.properties.map_or(false, |p| Some(p.conductivity) == num("CONDUCTIVITY") && Some(p.density) == num("DENSITY") && p.specificheat == num("SPECIFIC-HEAT").unwrap_or(800.0) && p.thickness == num("THICKNESS") && p.vapourdiffusivity == num("VAPOUR-DIFFUSIVITY-FACTOR")) && dm.resistance.is_none()
            } else {
                dm.properties.is_none() && dm.resistance == num("RESISTANCE")
            };
            let want_group = match m.get("GROUP") {
                Some(AVal::Str(g)) => g.clone(),
                _ => "Materiales".to_string(),
            };
            if !ok || dm.group != want_group {
                bad("material", format!("material {:?}: written {:?}, parsed {:?}", m.name, m.attrs, dm), obs);
                return;
            }
        }
        for g in &b.glasses {
            obs.count("typed_db_items");
            let num = |k: &str| match g.get(k) {
                Some(AVal::Num(v)) => *v,
                _ => f32::NAN,
            };
            match d.db.glasses.get(&g.name) {
                Some(x) if close32(x.conductivity, num("GLASS-CONDUCTANCE")) && close32(x.g_gln, num("SHADING-COEF") * 0.86) => {}
                other => {
                    bad("glass", format!("glass {:?}: written {:?}, parsed {:?}", g.name, g.attrs, other), obs);
                    return;
                }
            }
        }
        for g in &b.frames {
            obs.count("typed_db_items");
            let num = |k: &str| match g.get(k) {
                Some(AVal::Num(v)) => *v,
                _ => f32::NAN,
            };
            match d.db.frames.get(&g.name) {
                Some(x) if close32(x.conductivity, num("FRAME-CONDUCT")) && close32(x.absorptivity, num("FRAME-ABS")) && close32(x.width, num("FRAME-WIDTH")) => {}
                other => {
                    bad("frame", format!("frame {:?}: written {:?}, parsed {:?}", g.name, g.attrs, other), obs);
                    return;
                }
            }
        }
        for g in &b.gaps {
            obs.count("typed_db_items");
            let num = |k: &str| match g.get(k) {
                Some(AVal::Num(v)) => Some(*v),
                _ => None,
            };
            let st = |k: &str| match g.get(k) {
                Some(AVal::Str(v)) => v.clone(),
                _ => String::new(),
            };
            match d.db.wincons.get(&g.name) {
                Some(x) if x.glass == st("GLASS-TYPE") && x.frame == st("NAME-FRAME") && close32(x.framefrac, num("PORCENTAGE").unwrap() / 100.0) && close32(x.infcoeff, num("INF-COEF").unwrap()) && close32(x.deltau, num("porcentajeIncrementoU").unwrap_or(0.0)) && x.gglshwi == num("TransmisividadJulio") => {}
                other => {
                    bad("wincons", format!("window construction {:?}: written {:?}, parsed {:?}", g.name, g.attrs, other), obs);
                    return;
                }
            }
        }
        // schedules
        for s in &b.schedules {
            obs.count("typed_schedules");
            let found = d.schedules.iter().find(|x| match x {
                hulc::bdl::Schedule::Day(d) => d.name == s.name,
                hulc::bdl::Schedule::Week(d) => d.name == s.name,
                hulc::bdl::Schedule::Year(d) => d.name == s.name,
            });
            let ok = match (found, s.btype.as_str()) {
                (Some(hulc::bdl::Schedule::Day(x)), "DAY-SCHEDULE-PD") => matches!(s.get("VALUES"), Some(AVal::NumList(v)) if *v == x.values),
                (Some(hulc::bdl::Schedule::Week(x)), "WEEK-SCHEDULE-PD") => matches!(s.get("DAY-SCHEDULES"), Some(AVal::StrList(v)) if *v == x.days),
                (Some(hulc::bdl::Schedule::Year(x)), "SCHEDULE-PD") => {
                    matches!(s.get("MONTH"), Some(AVal::IntList(v)) if *v == x.months) && matches!(s.get("DAY"), Some(AVal::IntList(v)) if *v == x.days) && matches!(s.get("WEEK-SCHEDULES"), Some(AVal::StrList(v)) if *v == x.weeks)
                }
                _ => false,
            };
            if !ok {
                bad(&format!("schedule:{}", s.btype), format!("schedule {:?}: written {:?}, parsed {:?}", s.name, s.attrs, found), obs);
                return;
            }
        }
        // bridges and shades
        for t in &b.bridges {
            obs.count("typed_bridges");
            let num = |k: &str| match t.get(k) {
                Some(AVal::Num(v)) => Some(*v),
                _ => None,
            };
            match d.thermal_bridges.iter().find(|x| x.name == t.name) {
                Some(x) if x.length == num("LONG-TOTAL") && (t.name == "LONGITUDES_CALCULADAS" || (Some(x.psi) == num("TTL") && Some(x.frsi) == num("FRSI"))) => {}
                other => {
                    bad("thermal-bridge", format!("bridge {:?}: written {:?}, parsed {:?}", t.name, t.attrs, other), obs);
                    return;
                }
            }
        }
        for s in &b.shades {
            obs.count("typed_shades");
            match s {
                AShade::Rect { name, x, y, z, w, h, azimuth, tilt } => match d.shadings.iter().find(|q| &q.name == name).and_then(|q| q.geometry.as_ref()) {
                    Some(g) if g.x == *x && g.y == *y && g.z == *z && g.width == *w && g.height == *h && g.azimuth == *azimuth && g.tilt == *tilt => {}
                    other => {
                        bad("shade-rectangle", format!("shade {:?}: written {:?}, parsed {:?}", name, s, other), obs);
                        return;
                    }
                },
                AShade::Verts { name, pts } => match d.shadings.iter().find(|q| &q.name == name).and_then(|q| q.vertices.as_ref()) {
                    Some(v) if v.len() == pts.len() && v.iter().zip(pts.iter()).all(|(a, b)| a.x == b.0 && a.y == b.1 && a.z == b.2) => {}
                    other => {
                        bad("shade-vertices", format!("shade {:?}: written {:?}, parsed {:?}", name, s, other), obs);
                        return;
                    }
                },
            }
        }
        if d.meta.get(&BdlBlockType::BuildParameters).map(|b| b.attrs.get_f32_or_default("AZIMUTH")) != Some(b.deviation) {
            bad("build-parameters", format!("building deviation {} not recovered", b.deviation), obs);
        }
    }

    /// real files re-printed from their parsed blocks in another layout parse to the same data
    fn reprint(&self, rng: &mut Rng, case: &Case, obs: &mut Obs) {
        let files = crate::convert::real_project_files();
        let f = &files[(case.index as usize) % files.len()];
        let name = f.file_name().unwrap().to_string_lossy().to_string();
        let text = if name.to_lowercase().ends_with(".ctehexml") {
            let t = crate::corpus::read_utf8(f);
            match crate::corpus::bdl_text_of_ctehexml(&t) {
                Some((a, b)) => t[a..b].replace("<![CDATA[", "").replace("]]>", ""),
                None => return,
            }
        } else {
            crate::corpus::read_latin1(f)
        };
        obs.eval();
        let blocks = match guard(|| build_blocks(&text)) {
            Ok(Ok(b)) => b,
            _ => {
                obs.count("real_file_not_parsed(C19/C02 domain)");
                return;
            }
        };
        let d1 = guard(|| Data::new(&text));
        // re-print from the parsed blocks
        let mut ab: Vec<ABlock> = vec![];
        for b in blocks.iter().filter(|b| b.btype != BdlBlockType::ParteLider) {
            let mut a = ABlock::new(&b.name, type_name(b.btype));
            for (k, v) in b.attrs.0.iter() {
                let s = format!("{}", v);
                let is_num = format!("{:?}", v).starts_with("Number");
                let val = if is_num {
                    AVal::Num(s.parse::<f32>().unwrap_or(0.0))
                } else if s.starts_with('(') {
                    AVal::Raw(s.clone())
                } else {
                    AVal::Str(s.clone())
                };
                a.attrs.push((k.clone(), val));
            }
            ab.push(a);
        }
        let mut lay = Layout::random(rng);
        lay.legacy_preamble = false;
        lay.bare_identifiers = false;
        let text2 = print_blocks(rng, &ab, &lay);
        let d2 = guard(|| Data::new(&text2));
        obs.nontrivial(crate::rng::fnv64(format!("{}{}", name, case.index).as_bytes()));
        obs.count("real_files_reprinted");
        // lists are compared by items: normalise blanks after separators inside list strings
        let norm = |s: String| -> String {
            let mut o = String::new();
            let mut prev = ' ';
            for ch in s.chars() {
                if ch == ' ' && (prev == ',' || prev == '(' || prev == ' ') {
                    continue;
                }
                o.push(ch);
                prev = ch;
            }
            o.replace(" )", ")").replace(" ,", ",")
        };
        match (d1, d2) {
            (Ok(Ok(a)), Ok(Ok(b))) => {
                let (mut a, mut b) = (a, b);
                a.meta.remove(&BdlBlockType::ParteLider);
                b.meta.remove(&BdlBlockType::ParteLider);
                let (sa, sb) = (norm(format!("{:?}", a)), norm(format!("{:?}", b)));
                if sa != sb {
                    let pos = sa.bytes().zip(sb.bytes()).position(|(x, y)| x != y).unwrap_or(0);
                    let cut = |t: &str| -> String { t.chars().skip(t[..pos.min(t.len())].chars().count().saturating_sub(80)).take(200).collect() };
                    obs.violation("reprinted-real-file-parses-differently", format!("{}: Data differs after re-printing in layout {:?}: …{} ≠ …{}", name, lay, cut(&sa), cut(&sb)), json!({"layout": format!("{:?}", lay)}));
                }
            }
            (Ok(Err(_)), Ok(Err(_))) => obs.count("real_file_rejected_both_times"),
            (Ok(Ok(_)), Ok(Err(e))) => obs.violation("reprinted-real-file-rejected", format!("{}: parses as shipped but is rejected after re-printing: {}", name, e.to_string().chars().take(200).collect::<String>()), json!({"layout": format!("{:?}", lay)})),
            (Ok(Err(_)), Ok(Ok(_))) => obs.count("real_file_rejected_as_shipped_but_accepted_reprinted"),
            _ => obs.count("real_file_parser_panic(C19 domain)"),
        }
    }

    fn kyg(&self, rng: &mut Rng, case: &Case, obs: &mut Obs) {
        let new_layout = rng.chance(0.5);
        let comma = rng.chance(0.5);
        let dec = |v: f64, d: usize| -> String {
            let s = format!("{:.*}", d, v);
            if comma {
                s.replace('.', ",")
            } else {
                s
            }
        };
        let mut lines: Vec<String> = vec!["###;Datos para Factor de Pérdidas".into(), "#".into()];
        let nw = 1 + rng.usize(12);
        let orients = ["N", "NE", "E", "SE", "S", "SO", "O", "NO", "H"];
        let mut walls = vec![];
        let mut wins = vec![];
        for i in 0..nw {
            let name = format!("P{:02}_E{:02}_PE{:03}", 1 + rng.usize(4), 1 + rng.usize(9), i);
            let (a, u, b) = (rng.dec(1.0, 200.0, 2), rng.dec(0.1, 4.0, 2), if rng.chance(0.7) { 1.0 } else { 0.0 });
            let (wt, o, mut c) = (["Fachada", "Suelo", "Cubierta", "Adiabatico"][rng.usize(4)], orients[rng.usize(9)], crate::gen::bdl::db_name(rng, "C"));
            // construction names are free text: commas (also between digits) occur in them
            if rng.chance(0.3) {
                c = format!("{}, {}", c, *rng.pick(&["bajo emisivo 0,03", "con cámara", "4/16/4", "e=0,24 m"]));
                obs.count("kyg:comma-in-text-column");
            }
            if rng.chance(0.5) {
                let wn = format!("{}_V", name);
                let (wa, wu, ff, g, inf) = (rng.dec(0.5, 20.0, 2), rng.dec(0.8, 5.7, 2), rng.dec(0.0, 60.0, 2), rng.dec(0.1, 0.9, 2), rng.dec(3.0, 100.0, 2));
                let wo = orients[rng.usize(9)];
                lines.push(if new_layout {
                    format!("Ventana;{};{};{};{} ;{};{};-1.00;1.00;{};{}", wn, dec(wa, 2), dec(wu, 2), wo, dec(ff, 2), dec(g, 2), dec(inf, 2), c)
                } else {
                    format!("Ventana;{};{};{};{} ;{};{};-1.00;1.00", wn, dec(wa, 2), dec(wu, 2), wo, dec(ff, 2), dec(g, 2))
                });
                wins.push((wn, wa, wu, wo.replace('O', "W"), ff, g, inf, c.clone()));
            }
            lines.push(if new_layout { format!("Muro;{};{};{};{};{};{} ;{}", name, dec(a, 2), dec(u, 2), dec(b, 2), wt, o, c) } else { format!("Muro;{};{};{};{};Muro Exterior", name, dec(a, 2), dec(u, 2), dec(b, 2)) });
            walls.push((name, a, u, b, wt, o, c));
        }
        let mut tbs = vec![];
        for n in ["FRENTE_FORJADO", "UNION_CUBIERTA", "PILAR", "FRENTE_FORJADO, planta 1"] {
            if rng.chance(0.7) {
                let (l, psi) = (rng.dec(0.0, 300.0, 2), rng.dec(0.0, 1.0, 3));
                lines.push(if new_layout { format!("PPTT;{};{};{};SDINT", dec(l, 2), dec(psi, 3), n) } else { format!("PPTT;{};{};{}", dec(l, 2), dec(psi, 3), n) });
                tbs.push((n, l, psi));
            }
        }
        let k = rng.dec(0.2, 2.0, 3);
        lines.push(format!("Coeficiente K = ;{}", dec(k, 3)));
        lines.push("### Lineas correspondientes a Ganancias Solares en Julio".into());
        let mut q = vec![];
        for w in &wins {
            let (az, htot) = (rng.dec(0.0, 359.0, 0), rng.dec(20000.0, 130000.0, 3));
            let h3 = htot * rng.dec(0.1, 1.0, 2);
            lines.push(format!("\"{}\"; {:.6}; {:.6}; {:.6}; {:.6}; {:.6}; {:.6}; {:.6}", w.0, az, w.1, htot, htot * 0.95, htot * 0.9, h3, h3 * 0.5));
            q.push((w.0.clone(), az, h3 / htot));
        }
        let mut hf = vec![];
        for i in 0..9 {
            let v = rng.dec(20.0, 200.0, 6);
            lines.push(format!("{} ; {:.6}", i, v));
            hf.push(v);
        }
        let text = lines.join(if rng.chance(0.3) { "\r\n" } else { "\n" });
        obs.eval();
        obs.count(if new_layout { "kyg:new-layout" } else { "kyg:old-layout" });
        obs.count(if comma { "kyg:decimal-comma" } else { "kyg:decimal-point" });
        obs.nontrivial(crate::rng::fnv64(text.as_bytes()));
        let r = match guard(|| hulc::kyg::parse(&text)) {
            Ok(Ok(r)) => r,
            Ok(Err(e)) => {
                obs.violation("kyg-rejects-wellformed-file", format!("kyg#{}: {}", case.index, e), json!({"text": text}));
                return;
            }
            Err(p) => {
                obs.panic_violation(&p, json!({"where": "kyg::parse", "text": text}));
                return;
            }
        };
        let near = |a: f32, b: f64| (a as f64 - b).abs() <= 1e-4 * b.abs().max(1.0);
        let mut bad = |what: &str, msg: String| obs.violation(&format!("kyg:{}:{}", what, if new_layout { "new-layout" } else { "old-layout" }), format!("kyg#{} (decimal {}): {}", case.index, if comma { "comma" } else { "point" }, msg), json!({"text": text}));
        if !near(r.k, k) {
            bad("K", format!("K {} written, {} parsed", k, r.k));
            return;
        }
        if r.walls.len() != walls.len() || r.windows.len() != wins.len() || r.thermal_bridges.len() != tbs.len() {
            bad("counts", format!("{} walls {} windows {} bridges written; {} / {} / {} parsed", walls.len(), wins.len(), tbs.len(), r.walls.len(), r.windows.len(), r.thermal_bridges.len()));
            return;
        }
        for w in &walls {
            match r.walls.get(&w.0) {
                Some(x) if near(x.a, w.1) && near(x.u, w.2) && near(x.btrx, w.3) && (!new_layout || (x.wtype.as_deref() == Some(w.4) && x.orientation.as_deref() == Some(w.5) && x.cons.as_deref() == Some(w.6.as_str()))) => {}
                other => {
                    bad("wall", format!("wall {:?} written, {:?} parsed", w, other));
                    return;
                }
            }
        }
        for w in &wins {
            let qq = q.iter().find(|x| x.0 == w.0).unwrap();
            match r.windows.get(&w.0) {
                Some(x)
                    if near(x.a, w.1)
                        && near(x.u, w.2)
                        && x.orientation == w.3
                        && near(x.ff, w.4 / 100.0)
                        && near(x.azimuth_n, qq.1)
                        && (x.fshobst as f64 - qq.2).abs() < 1e-3
                        && (!new_layout || (x.ggln.map_or(false, |g| near(g, w.5)) && x.infcoeff_100.map_or(false, |g| near(g, w.6)) && x.cons.as_deref() == Some(w.7.as_str()))) => {}
                other => {
                    bad("window", format!("window {:?} (gains {:?}) written, {:?} parsed", w, qq, other));
                    return;
                }
            }
        }
        for t in &tbs {
            match r.thermal_bridges.get(t.0) {
                Some(x) if near(x.l, t.1) && near(x.psi, t.2) && (x.sisdim == if new_layout { "SDINT" } else { "" }) => {}
                other => {
                    bad("bridge", format!("bridge {:?} written, {:?} parsed", t, other));
                    return;
                }
            }
        }
        if r.hfactors.len() != 9 || !r.hfactors.iter().zip(hf.iter()).all(|(a, b)| near(*a, *b)) {
            bad("hfactors", format!("{:?} written, {:?} parsed", hf, r.hfactors));
        }
    }

    fn tbl(&self, rng: &mut Rng, case: &Case, obs: &mut Obs) {
        let ne = 1 + rng.usize(30);
        let ns = 1 + rng.usize(6);
        let mut lines: Vec<String> = vec!["Nombre".into(), " A U p f fv angNorte tilt tipo codigo0 codigo1".into(), format!("{} {}", ne, ns)];
        let mut els = vec![];
        for i in 0..ne {
            let name = format!("P{:02}_E{:02}_EL{:03}", 1 + rng.usize(4), 1 + rng.usize(9), i);
            let ty = *rng.pick(&[0i32, 1, 2, -2, -3, -4, -5]);
            let v = [rng.dec(0.5, 300.0, 6), rng.dec(0.1, 5.0, 6), rng.dec(0.0, 500.0, 6), rng.dec(0.0, 1.0, 6), rng.dec(0.0, 1.0, 6), rng.dec(0.0, 359.0, 6), *rng.pick(&[0.0, 90.0, 180.0])];
            let (c0, c1) = (rng.range_i(-3, 40) as i32, -(rng.range_i(1, 9) as i32));
            lines.push(format!("\"{}\"", name));
            lines.push(format!(" {:.6} {:.6} {:.6} {:.6} {:.6} {:.6} {:.6} {} {} {}", v[0], v[1], v[2], v[3], v[4], v[5], v[6], ty, c0, c1));
            els.push((name, v, ty, c0, c1));
        }
        let mut sps = vec![];
        for i in 0..ns {
            let name = format!("P{:02}_E{:02}", 1 + i, 1 + rng.usize(9));
            let (id, mult, area, q) = (-(i as i32) - 1, 1 + rng.usize(3) as i32, rng.dec(5.0, 500.0, 6), rng.dec(0.0, 10.0, 6));
            lines.push(format!("\"{}\"", name));
            lines.push(format!(" {} {} {:.6} {:.6}", id, mult, area, q));
            sps.push((name, id, mult, area, q));
        }
        let text = lines.join(if rng.chance(0.3) { "\r\n" } else { "\n" }) + "\n";
        let path = crate::core::tmp_dir().join(format!("c18.{}.tbl", std::process::id()));
        let _ = std::fs::write(&path, text.as_bytes());
        obs.eval();
        obs.count("tbl_files");
        obs.nontrivial(crate::rng::fnv64(text.as_bytes()));
        let r = guard(|| hulc::tbl::parse(&path));
        let _ = std::fs::remove_file(&path);
        let r = match r {
            Ok(Ok(r)) => r,
            Ok(Err(e)) => {
                obs.violation("tbl-rejects-wellformed-file", format!("tbl#{}: {:#}", case.index, e), json!({"text": text}));
                return;
            }
            Err(p) => {
                obs.panic_violation(&p, json!({"where": "tbl::parse", "text": text}));
                return;
            }
        };
        let near = |a: f32, b: f64| (a as f64 - b).abs() <= 1e-5 * b.abs().max(1.0);
        let uniq_e: std::collections::BTreeSet<&String> = els.iter().map(|e| &e.0).collect();
        let uniq_s: std::collections::BTreeSet<&String> = sps.iter().map(|e| &e.0).collect();
        if r.elements.len() != uniq_e.len() || r.spaces.len() != uniq_s.len() {
            obs.violation("tbl:counts", format!("tbl#{}: {} elements {} spaces written, {} / {} parsed", case.index, uniq_e.len(), uniq_s.len(), r.elements.len(), r.spaces.len()), json!({"text": text}));
            return;
        }
        for e in &els {
            // with a repeated name the last one wins; compare only unique names
            if els.iter().filter(|x| x.0 == e.0).count() != 1 {
                continue;
            }
            match r.elements.get(&e.0) {
                Some(x) if near(x.area, e.1[0]) && near(x.u, e.1[1]) && near(x.w_or_inf, e.1[2]) && near(x.g_winter, e.1[3]) && near(x.g_summer, e.1[4]) && near(x.ang_north, e.1[5]) && near(x.tilt, e.1[6]) && x.id_surf == e.3 && x.id_space == e.4 && (format!("{:?}", x.type_) == match e.2 { 0 => "EXTWALL", 1 => "WINDOW", 2 => "DOOR", -2 => "ADBWALL", -3 => "GNDWALL", -4 => "INTWALL", _ => "INTFLOOR" }) => {}
                other => {
                    obs.violation("tbl:element", format!("tbl#{}: element {:?} written, {:?} parsed", case.index, e, other), json!({"text": text}));
                    return;
                }
            }
        }
        for s in &sps {
            if sps.iter().filter(|x| x.0 == s.0).count() != 1 {
                continue;
            }
            match r.spaces.get(&s.0) {
                Some(x) if x.id_space == s.1 && x.mult == s.2 && near(x.area, s.3) && near(x.qint, s.4) => {}
                other => {
                    obs.violation("tbl:space", format!("tbl#{}: space {:?} written, {:?} parsed", case.index, s, other), json!({"text": text}));
                    return;
                }
            }
        }
    }
}

impl Property for C18 {
    fn id(&self) -> &'static str {
        "C18"
    }
    fn rule(&self) -> String {
        "documents printed by the harness from abstract descriptions (1..40 blocks drawn from generated buildings: every envelope, data-base, schedule, condition and meta block type, random attribute subsets, extra attributes of every value kind, children written after ground-contact walls) in random layouts (attribute order, number formats, quoted/bare strings, multi-line lists, list closing on its own line, comments, blank lines, tabs, CRLF, inline terminator, legacy preamble): build_blocks must recover name, type, parent and every attribute (numbers as f32, lists item by item); whole generated buildings: Data::new must carry the written values and the documented defaults in every typed element; the 68 real BDL texts re-printed from their parsed blocks in a random layout must give the same Data; KyG printer (old/new layouts x decimal point/comma) and tbl printer against kyg::parse / tbl::parse; non-trivial = distinct printed text".into()
    }
    fn assumptions(&self) -> Vec<String> {
        vec![
            "names are what HULC emits: quoted, no '..', no '=', not numeric literals, no leading/trailing blanks; a value stands on the line of its key".into(),
            "list-valued attributes are compared by their items (inner spacing of the raw list string is layout, not content)".into(),
        ]
    }
    fn workloads(&self, tier: Tier) -> Vec<(String, u64)> {
        vec![
            ("document".into(), tier.pick(4500, 100_000)),
            ("typed".into(), tier.pick(1500, 30_000)),
            ("reprint".into(), tier.pick(136, 68 * 20)),
            ("kyg".into(), tier.pick(900, 20_000)),
            ("tbl".into(), tier.pick(900, 20_000)),
        ]
    }
    fn required(&self, _tier: Tier) -> Vec<(String, u64)> {
        let mut v: Vec<(String, u64)> = ["FLOOR", "SPACE", "EXTERIOR-WALL", "INTERIOR-WALL", "ROOF", "UNDERGROUND-WALL", "UNDERGROUND-FLOOR", "WINDOW", "CONSTRUCTION", "POLYGON", "MATERIAL", "LAYERS", "GLASS-TYPE", "NAME-FRAME", "GAP", "BUILDING-SHADE", "THERMAL-BRIDGE", "DAY-SCHEDULE-PD", "WEEK-SCHEDULE-PD", "SCHEDULE-PD", "SPACE-CONDITIONS", "SYSTEM-CONDITIONS", "BUILD-PARAMETERS", "GENERAL-DATA"]
            .iter()
            .map(|t| (format!("btype:{}", t), 20))
            .collect();
        for l in ["crlf", "comments", "multiline_lists", "shuffled", "legacy_preamble", "terminator_inline", "bare_identifiers", "list_closed_on_own_line"] {
            v.push((format!("layout:{}", l), 50));
        }
        v.push(("attributes_compared".into(), 50_000));
        v.push(("typed_spaces".into(), 500));
        v.push(("kyg:comma-in-text-column".into(), 50));
        for a in ["SPACE-CONDITIONS", "SYSTEM-CONDITIONS", "ABSORPTANCE", "OVERHANG-A", "LEFT-FIN-A", "RIGHT-FIN-A", "COEFF", "TILT"] {
            v.push((format!("legacy-absent:{}", a), 30));
        }
        v.push(("typed_walls".into(), 3000));
        v.push(("typed_shades_with_10_or_more_vertices".into(), 300));
        v.push(("typed_windows".into(), 200));
        v.push(("typed_schedules".into(), 1000));
        v.push(("real_files_reprinted".into(), 60));
        v.push(("kyg:new-layout".into(), 50));
        v.push(("kyg:old-layout".into(), 50));
        v.push(("kyg:decimal-comma".into(), 50));
        v.push(("tbl_files".into(), 100));
        v
    }
    fn run_case(&self, case: &Case, obs: &mut Obs) {
        let mut rng = case.rng();
        match case.kind {
            "document" => self.document(&mut rng, case, obs),
            "typed" => self.typed(&mut rng, case, obs),
            "reprint" => self.reprint(&mut rng, case, obs),
            "kyg" => self.kyg(&mut rng, case, obs),
            _ => self.tbl(&mut rng, case, obs),
        }
    }
}
