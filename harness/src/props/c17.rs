//! C17 Schedules: exact calendar partition, weekday alignment, occupancy and load means

use std::collections::BTreeSet;

use bemodel::{Model, Schedule, ScheduleDay, ScheduleWeek, SchedulesDb, SpaceType, Uuid};
use serde_json::json;

use crate::convert::{convert_path, real_project_files, Conv};
use crate::core::{Case, Obs, Property, Tier};
use crate::gen::bdl::{gen_building, month_day, print_blocks, ABlock, BuildCfg, Layout, MONTH_DAYS};
use crate::gen::model::{gen_model, load_model, uuid, GenCfg};
use crate::oracle::mref::MRef;
use crate::panicx::guard;
use crate::rng::Rng;

pub struct C17;

fn day_of_year(m: u32, d: u32) -> u32 {
    MONTH_DAYS[..(m as usize - 1)].iter().sum::<u32>() + d
}

impl C17 {
    /// (1) expansion of yearly schedules built directly in the model
    fn expansion(&self, rng: &mut Rng, case: &Case, obs: &mut Obs) {
        let mut db = SchedulesDb::default();
        let nd = 2 + rng.usize(5);
        for i in 0..nd {
            db.day.push(ScheduleDay { id: uuid(rng), name: format!("d{}", i), values: vec![i as f32; 24] });
        }
        let nw = 1 + rng.usize(4);
        for i in 0..nw {
            // 1..7 runs covering the 7 days of the week
            let mut left = 7u32;
            let mut values = vec![];
            let target_runs = 1 + rng.usize(7);
            while left > 0 {
                let n = if values.len() + 1 >= target_runs { left } else { 1 + rng.below(left as u64) as u32 };
                values.push((db.day[rng.usize(nd)].id, n));
                left -= n;
            }
            db.week.push(ScheduleWeek { id: uuid(rng), name: format!("w{}", i), values });
        }
        let np = 1 + rng.usize(12);
        let arbitrary = rng.chance(0.4);
        let mut values = vec![];
        let mut total = 0u32;
        for p in 0..np {
            let n = if arbitrary {
                rng.below(120) as u32
            } else if p + 1 == np {
                365 - total.min(365)
            } else {
                rng.below(((365 - total.min(365)) / 2 + 1) as u64) as u32
            };
            total += n;
            values.push((db.week[rng.usize(nw)].id, n));
        }
        let y = Schedule { id: uuid(rng), name: "y".into(), values: values.clone() };
        let yid = y.id;
        db.year.push(y);
        obs.eval();
        let got = match guard(|| db.get_year_as_day_sch(yid)) {
            Ok(g) => g,
            Err(p) => {
                obs.panic_violation(&p, json!({"where": "get_year_as_day_sch"}));
                return;
            }
        };
        // own expansion: day d of the year takes slot d mod 7 of the week of its period
        let mut want: Vec<Uuid> = vec![];
        let mut d = 0usize;
        for (wid, n) in &values {
            let wk = db.week.iter().find(|w| w.id == *wid).unwrap();
            let days: Vec<Uuid> = wk.values.iter().flat_map(|(id, c)| std::iter::repeat(*id).take(*c as usize)).collect();
            for _ in 0..*n {
                want.push(days[d % 7]);
                d += 1;
            }
        }
        obs.count("year_schedules_expanded");
        obs.add("periods", np as u64);
        if values.len() > 1 && values[..values.len() - 1].iter().any(|v| v.1 % 7 != 0 && v.1 > 0) {
            obs.count("with_period_not_multiple_of_7");
            obs.nontrivial(crate::rng::fnv64(format!("{:?}", values).as_bytes()));
        }
        if got.len() != want.len() {
            obs.violation("year-expansion-length", format!("expansion has {} days but the period lengths add up to {}", got.len(), want.len()), json!({"periods": values.iter().map(|v| v.1).collect::<Vec<_>>()}));
            return;
        }
        if let Some(i) = (0..got.len()).find(|i| got[*i] != want[*i]) {
            let name = |id: &Uuid| db.day.iter().find(|d| d.id == *id).map(|d| d.name.clone()).unwrap_or_default();
            obs.violation(
                "year-expansion-weekday-slot",
                format!("day {} of the year (weekday slot {}) takes {} but the weekly schedule of its period has {} in that slot", i, i % 7, name(&got[i]), name(&want[i])),
                json!({"periods": values.iter().map(|v| v.1).collect::<Vec<_>>(), "weeks": db.week.iter().map(|w| w.values.iter().map(|v| (name(&v.0), v.1)).collect::<Vec<_>>()).collect::<Vec<_>>()}),
            );
        }
        // hourly values follow
        let vals = db.year_values(yid);
        if vals.len() != want.len() * 24 {
            obs.violation("year-values-length", format!("year_values has {} entries for {} days", vals.len(), want.len()), json!({}));
        }
        let _ = case;
    }

    /// (2) HULC schedules -> model schedules
    fn conversion(&self, rng: &mut Rng, case: &Case, obs: &mut Obs, all_dates: bool) {
        let mut cfg = BuildCfg::full();
        cfg.max_floors = 1;
        cfg.max_spaces_per_floor = 1;
        cfg.shades = false;
        cfg.own_polygon_walls = false;
        let mut b = gen_building(rng, &cfg);
        // day schedules: 24 values or a single one
        let nd = 3 + rng.usize(3);
        let mut days: Vec<(String, Vec<f32>)> = vec![];
        for i in 0..nd {
            let v: Vec<f32> = if rng.chance(0.4) { vec![rng.dec(0.0, 1.0, 2) as f32] } else { (0..24).map(|_| rng.dec(0.0, 1.0, 2) as f32).collect() };
            days.push((format!("DIA{}_{}", i, case.index), v));
        }
        // week schedules: 7 names or a single one; Monday's schedule may reappear later in the week
        let nw = 3 + rng.usize(4);
        let mut weeks: Vec<(String, Vec<String>)> = vec![];
        for i in 0..nw {
            let names: Vec<String> = match rng.usize(4) {
                0 => vec![days[rng.usize(nd)].0.clone()],
                1 => {
                    let (a, bb) = (days[0].0.clone(), days[1].0.clone());
                    let pat = [[0, 1, 0, 0, 0, 1, 2], [0, 1, 1, 1, 1, 1, 0], [0, 0, 1, 0, 0, 1, 1]][rng.usize(3)];
                    pat.iter().map(|k| match k { 0 => a.clone(), 1 => bb.clone(), _ => days[2].0.clone() }).collect()
                }
                _ => (0..7).map(|_| days[rng.usize(nd.min(3))].0.clone()).collect(),
            };
            weeks.push((format!("SEM{}_{}", i, case.index), names));
        }
        // year schedules: end dates
        let mut years: Vec<(String, Vec<u32>, Vec<String>)> = vec![];
        let ny = if all_dates { 40 } else { 6 };
        for i in 0..ny {
            let ends: Vec<u32> = if all_dates {
                // every end date of the year in turn: [date, 31 Dec]
                let d = 1 + ((case.index * 40 + i as u64) % 365) as u32;
                if d == 365 {
                    vec![365]
                } else {
                    vec![d, 365]
                }
            } else {
                let k = rng.usize(12);
                let mut set: BTreeSet<u32> = (0..k).map(|_| 1 + rng.below(364) as u32).collect();
                set.insert(365);
                set.into_iter().collect()
            };
            let ws: Vec<String> = ends.iter().map(|_| weeks[rng.usize(nw)].0.clone()).collect();
            years.push((format!("ANUAL{}_{}", i, case.index), ends, ws));
        }
        let mut blocks = vec![];
        for (n, v) in &days {
            blocks.push(ABlock::new(n, "DAY-SCHEDULE-PD").w("TYPE", "FRACTION").nums("VALUES", v.clone()));
        }
        for (n, v) in &weeks {
            blocks.push(ABlock::new(n, "WEEK-SCHEDULE-PD").w("TYPE", "FRACTION").strs("DAY-SCHEDULES", v.clone()));
        }
        for (n, ends, ws) in &years {
            let (mut ms, mut ds) = (vec![], vec![]);
            for e in ends {
                let (m, d) = month_day(*e);
                ms.push(m);
                ds.push(d);
            }
            blocks.push(ABlock::new(n, "SCHEDULE-PD").w("TYPE", "FRACTION").ints("MONTH", ms).ints("DAY", ds).strs("WEEK-SCHEDULES", ws.clone()));
        }
        b.schedules.extend(blocks);
        let lay = if rng.chance(0.5) { Layout::hulc() } else { Layout::random(rng) };
        let bdl = print_blocks(rng, &b.blocks(), &lay);
        let full = b.ctehexml(&bdl, "");
        obs.eval();
        let m = match crate::convert::convert_text_routed(true, &full) {
            Conv::Ok(m) => m,
            Conv::Err(e) => {
                obs.violation("schedule-project-rejected", format!("conversion#{}: {}", case.index, e), json!({"bdl_head": bdl.chars().take(2500).collect::<String>()}));
                return;
            }
            Conv::Panic(p) => {
                obs.panic_violation(&p, json!({"where": "conversion of a schedule project"}));
                return;
            }
        };
        obs.nontrivial(crate::rng::fnv64(full.as_bytes()));
        let day_name = |id: &Uuid| m.schedules.day.iter().find(|d| d.id == *id).map(|d| d.name.clone()).unwrap_or_else(|| format!("<missing {}>", id));
        let week_name = |id: &Uuid| m.schedules.week.iter().find(|d| d.id == *id).map(|d| d.name.clone()).unwrap_or_else(|| format!("<missing {}>", id));
        for (n, v) in &days {
            obs.count("day_schedules_converted");
            match m.schedules.day.iter().find(|d| &d.name == n) {
                Some(d) => {
                    let want: Vec<f32> = if v.len() == 1 { vec![v[0]; 24] } else { v.clone() };
                    if d.values != want {
                        obs.violation("day-schedule-values", format!("daily schedule {} written with {} value(s) converts to {:?}", n, v.len(), d.values), json!({"written": v}));
                    }
                }
                None => obs.violation("day-schedule-missing", format!("daily schedule {} not in the model", n), json!({})),
            }
        }
        for (n, names) in &weeks {
            obs.count("week_schedules_converted");
            if names.len() == 7 && names.iter().skip(1).any(|x| *x == names[0]) && names.windows(2).any(|w| w[0] != w[1]) {
                obs.count("weeks_where_mondays_schedule_reappears");
            }
            match m.schedules.week.iter().find(|d| &d.name == n) {
                Some(w) => {
                    let got: Vec<String> = w.values.iter().flat_map(|(id, c)| std::iter::repeat(day_name(id)).take(*c as usize)).collect();
                    let want: Vec<String> = if names.len() == 1 { vec![names[0].clone(); 7] } else { names.clone() };
                    if got != want {
                        obs.violation("week-schedule-runs", format!("weekly schedule {} declares {:?} but its runs expand to {:?}", n, want, got), json!({}));
                    }
                }
                None => obs.violation("week-schedule-missing", format!("weekly schedule {} not in the model", n), json!({})),
            }
        }
        for (n, ends, ws) in &years {
            obs.count("year_schedules_converted");
            obs.add("end_dates_checked", ends.len() as u64);
            match m.schedules.year.iter().find(|d| &d.name == n) {
                Some(y) => {
                    let mut prev = 0;
                    let want: Vec<(String, u32)> = ends.iter().zip(ws.iter()).map(|(e, w)| {
                        let c = e - prev;
                        prev = *e;
                        (w.clone(), c)
                    }).collect();
                    let got: Vec<(String, u32)> = y.values.iter().map(|(id, c)| (week_name(id), *c)).collect();
                    let total: u32 = y.values.iter().map(|v| v.1).sum();
                    if got != want || total != 365 {
                        let dates: Vec<(u32, u32)> = ends.iter().map(|e| month_day(*e)).collect();
                        obs.violation(
                            if total != 365 { "year-periods-do-not-cover-365-days" } else { "year-periods-do-not-partition-at-the-end-dates" },
                            format!("yearly schedule {} with end dates {:?}: periods {:?}, expected {:?}", n, dates, got, want),
                            json!({"end_days_of_year": ends}),
                        );
                    }
                    // cross-check of the calendar arithmetic itself
                    for e in ends {
                        let (mm, dd) = month_day(*e);
                        if day_of_year(mm, dd) != *e {
                            obs.harness_error("calendar table inconsistent".into());
                        }
                    }
                }
                None => obs.violation("year-schedule-missing", format!("yearly schedule {} not in the model", n), json!({})),
            }
        }
        if obs.samples.len() < 2 {
            obs.sample(json!({"year_schedule": years[0].0, "end_dates": years[0].1.iter().map(|e| month_day(*e)).collect::<Vec<_>>(), "weeks": years[0].2}));
        }
    }

    /// (3) occupied hours and mean internal load
    fn occupancy(&self, m: &Model, origin: &str, obs: &mut Obs) {
        obs.eval();
        let ind = match guard(|| m.energy_indicators()) {
            Ok(i) => i,
            Err(p) => {
                obs.panic_violation(&p, json!({"where": "energy_indicators", "origin": origin}));
                return;
            }
        };
        let r = MRef::new(m);
        let occupied: Vec<&bemodel::Space> = m.spaces.iter().filter(|s| s.inside_tenv && s.kind != SpaceType::UNINHABITED && s.loads.is_some()).collect();
        // yearly occupied time
        let mut hours: BTreeSet<(usize, usize)> = BTreeSet::new();
        let mut lens: BTreeSet<usize> = BTreeSet::new();
        let mut short_day = false;
        for s in &occupied {
            let l = match m.loads.iter().find(|l| Some(l.id) == s.loads) {
                Some(l) => l,
                None => continue,
            };
            let y = match l.people_schedule {
                Some(y) => y,
                None => continue,
            };
            let days = r.year_days(y);
            lens.insert(days.len());
            for (di, did) in days.iter().enumerate() {
                if let Some(v) = r.day_values(*did) {
                    if v.len() != 24 {
                        short_day = true;
                    }
                    for (h, x) in v.iter().enumerate().take(24) {
                        if (*x as f64).abs() > 1e-5 * 1.2 {
                            hours.insert((di, h));
                        } else if (*x as f64).abs() > 1e-5 * 0.8 {
                            short_day = true; // value at the "almost zero" threshold: ambiguous
                        }
                    }
                }
            }
        }
        let g = &ind.props.global;
        if lens.len() > 1 || short_day {
            obs.ambiguous("schedules of different length or not 24 values (outside the statement)");
        } else {
            obs.count("occupancy_models");
            if !occupied.is_empty() && !hours.is_empty() {
                obs.nontrivial(crate::rng::fnv64(format!("{}{}", origin, hours.len()).as_bytes()));
            }
            if hours.len() as u32 != g.occ_spaces_hours_in_use {
                obs.violation(
                    "occupied-hours",
                    format!("{}: occ_spaces_hours_in_use = {} but {} hours of the year have some habitable space inside the envelope occupied ({} such spaces)", origin, g.occ_spaces_hours_in_use, hours.len(), occupied.len()),
                    json!({"origin": origin}),
                );
            }
        }
        // mean internal load
        let (mut tl, mut ta) = (0.0, 0.0);
        let mut undefined = false;
        for s in &occupied {
            let a = r.space_area(s.id) * s.multiplier as f64;
            ta += a;
            if let Some(l) = m.loads.iter().find(|l| Some(l.id) == s.loads) {
                let mean = |y: Option<Uuid>| -> f64 {
                    match y {
                        None => 0.0,
                        Some(y) => r.year_mean(y).unwrap_or(f64::NAN),
                    }
                };
                let la = mean(l.people_schedule) * l.people_sensible as f64 + mean(l.lighting_schedule) * l.lighting as f64 + mean(l.equipment_schedule) * l.equipment as f64;
                if la.is_nan() {
                    undefined = true;
                }
                tl += la * a;
            }
        }
        if undefined {
            obs.ambiguous("a load schedule expands to nothing (mean undefined)");
            return;
        }
        let want = if ta > 1e-7 { tl / ta } else { 0.0 };
        obs.count("load_means_compared");
        if !((g.occ_spaces_average_load as f64 - want).abs() <= 2e-4 * want.abs() + 1e-4) {
            obs.violation(
                "mean-internal-load",
                format!("{}: occ_spaces_average_load = {} but the floor-area-weighted mean of the schedule-averaged loads is {:.5} (area {:.2})", origin, g.occ_spaces_average_load, want, ta),
                json!({"origin": origin}),
            );
        }
        if obs.samples.len() < 3 && !occupied.is_empty() {
            obs.sample(json!({"origin": origin, "occupied_spaces": occupied.len(), "hours_in_use": g.occ_spaces_hours_in_use, "reference_hours": hours.len(), "average_load": g.occ_spaces_average_load, "reference_load": want}));
        }
    }
}

impl Property for C17 {
    fn id(&self) -> &'static str {
        "C17"
    }
    fn rule(&self) -> String {
        "(1) yearly schedules with 1..12 periods of arbitrary lengths over weekly patterns of 1..7 runs: get_year_as_day_sch against day d -> slot d mod 7 of the period's week; (2) HULC projects printed by the harness whose SCHEDULE-PD end-date lists cover all 365 end dates ([date, 31 Dec]) and random increasing lists of 1..12 dates, WEEK-SCHEDULE-PD with 7 names (incl. weeks where Monday's schedule reappears after a different one) or 1 name, DAY-SCHEDULE-PD with 24 values or 1: converted periods must partition 365 days exactly at the dates (harness month table), weekly runs must expand to the declared 7 names, daily values to 24; (3) occ_spaces_hours_in_use and occ_spaces_average_load on generated models (1..many occupied spaces sharing or not sharing schedules) and real models against the harness's own expansion; non-trivial = distinct schedule / project / model".into()
    }
    fn assumptions(&self) -> Vec<String> {
        vec!["weekly schedules that do not cover 7 days and daily schedules without 24 values are outside the statement (counted ambiguous in part 3)".into(), "non-zero occupancy means |v| > 1e-5; values within 20% of that threshold are ambiguous".into()]
    }
    fn workloads(&self, tier: Tier) -> Vec<(String, u64)> {
        vec![
            ("expansion".into(), tier.pick(12_000, 200_000)),
            ("conversion-all-dates".into(), 10),
            ("conversion-random".into(), tier.pick(180, 3000)),
            ("occupancy-generated".into(), tier.pick(900, 10_000)),
            ("occupancy-real".into(), (crate::corpus::model_json_files().len() + real_project_files().len()) as u64),
        ]
    }
    fn required(&self, _tier: Tier) -> Vec<(String, u64)> {
        vec![
            ("year_schedules_expanded".into(), 3000),
            ("with_period_not_multiple_of_7".into(), 1000),
            ("end_dates_checked".into(), 700),
            ("distinct_end_dates".into(), 365),
            ("weeks_where_mondays_schedule_reappears".into(), 20),
            ("day_schedules_converted".into(), 200),
            ("occupancy_models".into(), 200),
            ("load_means_compared".into(), 200),
        ]
    }
    fn run_case(&self, case: &Case, obs: &mut Obs) {
        let mut rng = case.rng();
        match case.kind {
            "expansion" => self.expansion(&mut rng, case, obs),
            "conversion-all-dates" => {
                // 10 cases x 40 schedules cover 400 >= 365 consecutive end dates
                let lo = case.index * 40;
                let distinct = (lo..lo + 40).map(|k| k % 365).collect::<BTreeSet<_>>().len() as u64;
                self.conversion(&mut rng, case, obs, true);
                obs.add("distinct_end_dates", if case.index < 9 { distinct } else { 365 - 360 });
            }
            "conversion-random" => self.conversion(&mut rng, case, obs, false),
            "occupancy-generated" => {
                let mut cfg = GenCfg::small();
                cfg.shades = (0, 0);
                cfg.p_window = 0.1;
                let m = gen_model(&mut rng, &cfg).model;
                self.occupancy(&m, &format!("generated#{}", case.index), obs);
            }
            _ => {
                let js = crate::corpus::model_json_files();
                let idx = case.index as usize;
                if idx < js.len() {
                    if let Some(m) = load_model(&js[idx]) {
                        self.occupancy(&m, &js[idx].file_name().unwrap().to_string_lossy(), obs);
                    }
                } else {
                    let files = real_project_files();
                    if let Conv::Ok(m) = convert_path(&files[idx - js.len()]) {
                        self.occupancy(&m, &files[idx - js.len()].file_name().unwrap().to_string_lossy(), obs);
                    }
                }
            }
        }
    }
}
