//! C05 Export and indicators are deterministic, reproducible and history-independent

use std::collections::{BTreeMap, BTreeSet};
use std::process::Command;
use std::sync::{Arc, Barrier, Mutex};

use bemodel::Model;
use serde_json::{json, Value};

use crate::convert::{convert_bdl_fast, convert_ctehexml_fast, project_texts, real_project_files, Conv};
use crate::core::{Case, Obs, Property, Tier};
use crate::gen::bdl::{gen_building, print_blocks, ABlock, BuildCfg, Layout};
use crate::gen::model::{gen_model, load_model, zone, GenCfg, ZONES};
use crate::panicx::guard;
use crate::rng::Rng;

pub struct C05;

fn md5hex(s: &str) -> String {
    format!("{:x}", md5::compute(s.as_bytes()))
}

/// the library's own route (parse_with_catalog + try_from): this property is about what that route does over time,
/// so the harness's cached-catalogue shortcut is not used here
fn convert_text(is_xml: bool, text: &str) -> Option<Model> {
    match if is_xml { crate::convert::convert_ctehexml_text(text) } else { crate::convert::convert_bdl_text(text) } {
        Conv::Ok(m) => Some(m),
        _ => None,
    }
}

/// indicators as a canonical JSON string (maps sorted by key)
pub fn indicators_value(m: &Model) -> Option<String> {
    let ind = guard(|| m.energy_indicators()).ok()?;
    serde_json::to_value(&ind).ok().map(|v| v.to_string())
}

/// SHA-like fingerprint of the three process-wide tables (sorted by key)
fn tables_fingerprint() -> String {
    use bemodel::climatedata::{CLIMATEMETADATA, JULYRADDATA, MONTHLYRADDATA};
    let mut s = String::new();
    {
        let t = JULYRADDATA.lock().unwrap_or_else(|e| e.into_inner());
        let m: BTreeMap<String, String> = t.iter().map(|(k, v)| (format!("{}", k), format!("{:?}", v))).collect();
        s.push_str(&format!("{:?}", m));
    }
    {
        let t = MONTHLYRADDATA.lock().unwrap_or_else(|e| e.into_inner());
        let mut v: Vec<String> = t.iter().map(|e| format!("{:?}", e)).collect();
        v.sort();
        s.push_str(&v.join("|"));
    }
    {
        let t = CLIMATEMETADATA.lock().unwrap_or_else(|e| e.into_inner());
        let m: BTreeMap<String, String> = t.iter().map(|(k, v)| (format!("{}", k), format!("{:?}", v))).collect();
        s.push_str(&format!("{:?}", m));
    }
    md5hex(&s)
}

/// entry point of the helper sub-commands run in fresh processes
/// What the repository's tools do at start-up (env_logger): a logger whose level comes from RUST_LOG. Its output goes
/// nowhere, but with it the arguments of the library's log macros are evaluated exactly as in a hulc2model / thor run.
struct SinkLogger;
impl log::Log for SinkLogger {
    fn enabled(&self, _: &log::Metadata) -> bool {
        true
    }
    fn log(&self, record: &log::Record) {
        // format the message (this is what evaluates the arguments), then drop it
        let _ = format!("{}", record.args());
    }
    fn flush(&self) {}
}
static SINK_LOGGER: SinkLogger = SinkLogger;

fn init_logging_from_env() {
    let level = match std::env::var("RUST_LOG").unwrap_or_default().to_lowercase().as_str() {
        "trace" => log::LevelFilter::Trace,
        "debug" => log::LevelFilter::Debug,
        "info" => log::LevelFilter::Info,
        "warn" => log::LevelFilter::Warn,
        "error" => log::LevelFilter::Error,
        _ => return,
    };
    if log::set_logger(&SINK_LOGGER).is_ok() {
        log::set_max_level(level);
    }
}

pub fn aux_main(args: &[String]) -> i32 {
    crate::panicx::install_hook();
    init_logging_from_env();
    match args.first().map(|s| s.as_str()) {
        Some("convert") => {
            let p = std::path::PathBuf::from(&args[1]);
            let (is_xml, full, _) = project_texts(&p);
            match convert_text(is_xml, &full).and_then(|m| m.as_json().ok()) {
                Some(j) => {
                    println!("{}", md5hex(&j));
                    0
                }
                None => {
                    println!("ERR");
                    0
                }
            }
        }
        Some("indicators") => {
            let text = std::fs::read_to_string(&args[1]).unwrap_or_default();
            match Model::from_json(&text).ok().and_then(|m| indicators_value(&m)) {
                Some(v) => {
                    println!("{}", md5hex(&v));
                    0
                }
                None => {
                    println!("ERR");
                    0
                }
            }
        }
        _ => 2,
    }
}

fn fresh(sub: &str, path: &std::path::Path, variant: u64) -> Option<String> {
    let exe = std::env::current_exe().ok()?;
    let mut c = Command::new(exe);
    c.arg("aux").arg(sub).arg(path);
    // vary what a process inherits: environment size, working directory, logging
    match variant % 4 {
        0 => {}
        1 => {
            c.env("RUST_LOG", "debug");
            c.env("VERIF_PADDING", "x".repeat(3000));
        }
        2 => {
            c.current_dir("/");
            c.env_remove("RUST_LOG");
        }
        _ => {
            c.current_dir(crate::core::tmp_dir());
            c.env("RUST_LOG", "info");
            for i in 0..40 {
                c.env(format!("VERIF_PAD_{}", i), "y".repeat(50 + i));
            }
        }
    }
    let out = c.stderr(std::process::Stdio::null()).output().ok()?;
    Some(String::from_utf8_lossy(&out.stdout).trim().to_string())
}

impl C05 {
    /// (a) repeat in process + (b) fresh processes
    fn repeat(&self, case: &Case, obs: &mut Obs) {
        let files = real_project_files();
        let f = &files[case.index as usize % files.len()];
        let name = f.file_name().unwrap().to_string_lossy().to_string();
        let (is_xml, full, _) = project_texts(f);
        let first = match convert_text(is_xml, &full).and_then(|m| m.as_json().ok()) {
            Some(j) => j,
            None => {
                obs.count("project_not_convertible");
                return;
            }
        };
        obs.nontrivial_str(&name);
        for i in 0..case.tier.pick(6, 20) {
            obs.eval();
            let again = convert_text(is_xml, &full).and_then(|m| m.as_json().ok());
            obs.count("in_process_repeats");
            if again.as_deref() != Some(first.as_str()) {
                obs.violation("conversion-differs-on-repeat", format!("{}: conversion #{} in the same process is not byte-identical to the first", name, i + 2), json!({"project": name}));
                return;
            }
        }
        let want = md5hex(&first);
        let mut seen = BTreeSet::new();
        for v in 0..case.tier.pick(3, 16) {
            obs.eval();
            match fresh("convert", f, v + case.index) {
                Some(h) if h.len() == 32 => {
                    obs.count("fresh_process_conversions");
                    seen.insert(h.clone());
                    if h != want {
                        obs.violation("conversion-differs-in-fresh-process", format!("{}: a fresh process (variant {}) exports different JSON (md5 {} vs {})", name, v, h, want), json!({"project": name}));
                        return;
                    }
                }
                other => obs.inconclusive(&format!("fresh-process-helper-failed:{:?}", other.map(|s| s.chars().take(20).collect::<String>()))),
            }
        }
        if obs.samples.len() < 2 {
            obs.sample(json!({"project": name, "md5_of_export": want, "bytes": first.len()}));
        }
    }

    /// (c) threads behind a barrier, each working on its own sequence; results equal the sequential baseline
    fn threads(&self, case: &Case, obs: &mut Obs) {
        let mut rng = case.rng();
        let files = real_project_files();
        let models = crate::corpus::model_json_files();
        let nthreads = 16;
        let per = 4;
        // work items: (kind, path); baseline computed sequentially first
        let mut items: Vec<(bool, std::path::PathBuf)> = vec![];
        for _ in 0..6 {
            items.push((true, files[rng.usize(files.len())].clone()));
        }
        for _ in 0..4 {
            items.push((false, models[rng.usize(models.len())].clone()));
        }
        let work = |it: &(bool, std::path::PathBuf)| -> String {
            if it.0 {
                let (x, full, _) = project_texts(&it.1);
                convert_text(x, &full).and_then(|m| m.as_json().ok()).map(|j| md5hex(&j)).unwrap_or_else(|| "ERR".into())
            } else {
                load_model(&it.1).and_then(|m| indicators_value(&m)).map(|v| md5hex(&v)).unwrap_or_else(|| "ERR".into())
            }
        };
        let before = tables_fingerprint();
        let baseline: Vec<String> = items.iter().map(|it| guard(|| work(it)).unwrap_or_else(|_| "PANIC".into())).collect();
        let plan: Vec<Vec<usize>> = (0..nthreads).map(|_| (0..per).map(|_| rng.usize(items.len())).collect()).collect();
        let barrier = Arc::new(Barrier::new(nthreads));
        let order: Arc<Mutex<Vec<usize>>> = Arc::new(Mutex::new(vec![]));
        let items = Arc::new(items);
        let mut handles = vec![];
        for t in 0..nthreads {
            let (barrier, order, items, mine) = (barrier.clone(), order.clone(), items.clone(), plan[t].clone());
            handles.push(std::thread::spawn(move || {
                barrier.wait();
                let mut out = vec![];
                for i in mine {
                    let r = std::panic::catch_unwind(std::panic::AssertUnwindSafe(|| {
                        let it = &items[i];
                        if it.0 {
                            let (x, full, _) = project_texts(&it.1);
                            convert_text(x, &full).and_then(|m| m.as_json().ok()).map(|j| md5hex(&j)).unwrap_or_else(|| "ERR".into())
                        } else {
                            load_model(&it.1).and_then(|m| indicators_value(&m)).map(|v| md5hex(&v)).unwrap_or_else(|| "ERR".into())
                        }
                    }))
                    .unwrap_or_else(|_| "PANIC".into());
                    order.lock().unwrap().push(t);
                    out.push((i, r));
                }
                out
            }));
        }
        for (t, h) in handles.into_iter().enumerate() {
            match h.join() {
                Ok(res) => {
                    for (i, r) in res {
                        obs.eval();
                        obs.count("concurrent_results_compared");
                        if r != baseline[i] {
                            obs.violation(
                                if items[i].0 { "concurrent-conversion-differs" } else { "concurrent-indicators-differ" },
                                format!("thread {}: {} gives {} while other threads work, {} sequentially", t, items[i].1.file_name().unwrap().to_string_lossy(), r, baseline[i]),
                                json!({}),
                            );
                        }
                    }
                }
                Err(_) => obs.violation("thread-panicked", format!("worker thread {} panicked", t), json!({})),
            }
        }
        let sig = md5hex(&format!("{:?}", order.lock().unwrap()));
        obs.nontrivial(crate::rng::fnv64(sig.as_bytes()));
        obs.count("thread_rounds");
        if tables_fingerprint() != before {
            obs.violation("climate-tables-changed", "a process-wide climate table differs after the concurrent workload".into(), json!({}));
        }
    }

    /// (d) ids depend only on the element's own definition
    fn id_locality(&self, case: &Case, obs: &mut Obs) {
        let mut rng = case.rng();
        let b = gen_building(&mut rng, &BuildCfg::full());
        let lay = Layout::hulc();
        let mut r1 = rng.clone();
        let bdl1 = print_blocks(&mut r1, &b.blocks(), &lay);
        let m1 = match convert_text(true, &b.ctehexml(&bdl1, "")) {
            Some(m) => m,
            None => return,
        };
        // append unrelated definitions
        let mut b2 = b.clone();
        let what = match rng.usize(6) {
            5 if b.schedules.iter().any(|x| x.btype == "DAY-SCHEDULE-PD") => {
                // an unreferenced weekly schedule that happens to carry the name of an existing daily schedule (the three
                // kinds of schedule have separate name spaces)
                let day = b.schedules.iter().find(|x| x.btype == "DAY-SCHEDULE-PD").unwrap().name.clone();
                b2.schedules.push(ABlock::new(&day, "WEEK-SCHEDULE-PD").w("TYPE", "FRACTION").strs("DAY-SCHEDULES", vec![day.clone()]));
                "weekly schedule named like a daily one"
            }
            0 => {
                b2.materials.push(ABlock::new("Material_ajeno_verif", "MATERIAL").w("TYPE", "PROPERTIES").num("CONDUCTIVITY", 0.5).num("DENSITY", 1000.0));
                "material"
            }
            1 => {
                b2.layers.push(ABlock::new("Capas_ajenas_verif", "LAYERS").strs("MATERIAL", vec![b.materials[0].name.clone()]).nums("THICKNESS", vec![0.1]));
                "construction"
            }
            2 => {
                let (mut sch, _) = crate::gen::bdl::gen_schedule_blocks(&mut rng, 1);
                // names of their own: a block that happens to repeat an existing name would be a redefinition, not an unrelated addition
                let names: Vec<String> = sch.iter().map(|b| b.name.clone()).collect();
                for b in sch.iter_mut() {
                    b.name = format!("ajeno_{}", b.name);
                    for (_, v) in b.attrs.iter_mut() {
                        if let crate::gen::bdl::AVal::StrList(l) = v {
                            for x in l.iter_mut() {
                                if names.contains(x) {
                                    *x = format!("ajeno_{}", x);
                                }
                            }
                        }
                    }
                }
                b2.schedules.extend(sch);
                "schedules"
            }
            3 => {
                b2.shades.push(crate::gen::bdl::AShade::Rect { name: "Sombra_ajena_verif".into(), x: 50.0, y: 50.0, z: 0.0, w: 3.0, h: 3.0, azimuth: 0.0, tilt: 90.0 });
                "shade"
            }
            _ => {
                // a whole extra space with its polygon and walls on the last floor
                let extra = gen_building(&mut rng, &BuildCfg { max_floors: 1, max_spaces_per_floor: 1, shades: false, schedules: false, ..BuildCfg::full() });
                let mut sp = extra.floors[0].spaces[0].clone();
                sp.name = "PXX_EXX_ajeno".into();
                for w in sp.walls.iter_mut() {
                    w.name = format!("ajeno_{}", w.name);
                    w.layers = b.layers[0].name.clone();
                    w.next_to = None;
                    if w.btype == "INTERIOR-WALL" {
                        w.adiabatic = true;
                    }
                    for win in w.windows.iter_mut() {
                        win.name = format!("ajeno_{}", win.name);
                        win.gap = b.gaps[0].name.clone();
                    }
                }
                sp.conds = b.floors[0].spaces[0].conds.clone();
                sp.sysconds = b.floors[0].spaces[0].sysconds.clone();
                b2.floors.last_mut().unwrap().spaces.push(sp);
                "space-with-walls"
            }
        };
        let mut r2 = rng.clone();
        let bdl2 = print_blocks(&mut r2, &b2.blocks(), &lay);
        let m2 = match convert_text(true, &b2.ctehexml(&bdl2, "")) {
            Some(m) => m,
            None => {
                obs.count("extended_project_not_convertible");
                return;
            }
        };
        obs.eval();
        obs.count(&format!("appended:{}", what));
        obs.nontrivial(crate::rng::fnv64(format!("{}{}", case.index, what).as_bytes()));
        macro_rules! cmp {
            ($kind:expr, $a:expr, $b:expr) => {
                for x in $a.iter() {
                    if let Some(y) = $b.iter().find(|y| y.name == x.name) {
                        obs.count("ids_compared");
                        if y.id != x.id {
                            obs.violation(&format!("id-changes-when-unrelated-{}-is-added:{}", what, $kind), format!("{} {:?} has id {} and, after adding an unrelated {}, {}", $kind, x.name, x.id, what, y.id), json!({"appended": what}));
                            return;
                        }
                    } else {
                        obs.violation("element-lost-when-unrelated-definition-is-added", format!("{} {:?} disappears after adding an unrelated {}", $kind, x.name, what), json!({}));
                        return;
                    }
                }
            };
        }
        cmp!("space", m1.spaces, m2.spaces);
        cmp!("wall", m1.walls, m2.walls);
        cmp!("window", m1.windows, m2.windows);
        cmp!("shade", m1.shades, m2.shades);
        cmp!("thermal-bridge", m1.thermal_bridges, m2.thermal_bridges);
        cmp!("wallcons", m1.cons.wallcons, m2.cons.wallcons);
        cmp!("wincons", m1.cons.wincons, m2.cons.wincons);
        cmp!("material", m1.cons.materials, m2.cons.materials);
        cmp!("glass", m1.cons.glasses, m2.cons.glasses);
        cmp!("frame", m1.cons.frames, m2.cons.frames);
        cmp!("loads", m1.loads, m2.loads);
        cmp!("thermostat", m1.thermostats, m2.thermostats);
        cmp!("schedule-year", m1.schedules.year, m2.schedules.year);
        cmp!("schedule-week", m1.schedules.week, m2.schedules.week);
        cmp!("schedule-day", m1.schedules.day, m2.schedules.day);
    }

    /// (e) indicators of B do not depend on what was computed before
    fn history(&self, case: &Case, obs: &mut Obs) {
        let mut rng = case.rng();
        // A: a model; B: a variant of A that shares ids but differs in surroundings, or an unrelated model
        let a: Model = if rng.chance(0.5) {
            let js = crate::corpus::model_json_files();
            match load_model(&js[rng.usize(js.len())]) {
                Some(m) => m,
                None => return,
            }
        } else {
            gen_model(&mut rng, &GenCfg::geometric()).model
        };
        let mut b = a.clone();
        let variant = match rng.usize(6) {
            0 => {
                b.shades.clear();
                "same ids, shades removed"
            }
            1 => {
                let cur = format!("{}", b.meta.climate);
                let other = ZONES.iter().find(|z| **z != cur).unwrap();
                b.meta.climate = zone(other);
                "same ids, other climate zone"
            }
            2 => {
                for w in b.walls.iter_mut() {
                    w.geometry.azimuth = ((w.geometry.azimuth + 90.0 + 180.0) % 360.0) - 180.0;
                    if let Some(p) = w.geometry.position.as_mut() {
                        let (x, y) = (p.x, p.y);
                        p.x = -y;
                        p.y = x;
                    }
                }
                "same ids, building turned by 90 degrees"
            }
            3 => {
                for c in b.cons.wincons.iter_mut() {
                    c.f_f = (c.f_f + 0.2).min(1.0);
                }
                for c in b.cons.wallcons.iter_mut() {
                    for l in c.layers.iter_mut() {
                        l.e *= 2.0;
                    }
                }
                "same ids, other constructions"
            }
            4 => {
                b.meta.is_new_building = !b.meta.is_new_building;
                b.meta.global_ventilation_l_s = Some(123.0);
                "same ids, other meta data"
            }
            _ => {
                b = gen_model(&mut rng, &GenCfg::geometric()).model;
                "unrelated model"
            }
        };
        obs.eval();
        let before = tables_fingerprint();
        let _ = indicators_value(&a);
        let after_a = match indicators_value(&b) {
            Some(v) => v,
            None => return,
        };
        // B in a fresh process
        let path = crate::core::tmp_dir().join(format!("c05.{}.{}.json", std::process::id(), case.index));
        let _ = std::fs::write(&path, b.as_json().unwrap_or_default());
        let fresh_md5 = fresh("indicators", &path, case.index);
        let _ = std::fs::remove_file(&path);
        obs.count(&format!("history:{}", variant));
        obs.nontrivial(crate::rng::fnv64(format!("{}{}", case.index, variant).as_bytes()));
        match fresh_md5 {
            Some(h) if h.len() == 32 => {
                // the model went through JSON for the fresh process: compare against the same round trip here
                let b_rt = Model::from_json(&b.as_json().unwrap_or_default()).ok();
                let local = b_rt.as_ref().and_then(indicators_value).map(|v| md5hex(&v));
                obs.count("history_pairs_compared");
                if local.as_deref() != Some(h.as_str()) {
                    obs.violation(&format!("indicators-depend-on-history:{}", variant), format!("indicators of B ({}) computed after A differ from those computed in a fresh process", variant), json!({"variant": variant}));
                }
                if b_rt.as_ref().and_then(indicators_value).as_deref() != Some(after_a.as_str()) && !after_a.contains("null") {
                    // (only meaningful when the JSON round trip itself is lossless for this model)
                    obs.count("roundtrip_changes_indicator_value(C04 domain)");
                }
            }
            other => obs.inconclusive(&format!("fresh-process-helper-failed:{:?}", other.map(|s| s.chars().take(20).collect::<String>()))),
        }
        if tables_fingerprint() != before {
            obs.violation("climate-tables-changed", "a process-wide climate table differs after computing indicators".into(), json!({}));
        }
    }

    /// (i) conversion history: several different projects converted one after the other on this thread; each
    /// export must equal what a fresh process exports for that project alone
    fn convert_history(&self, case: &Case, obs: &mut Obs) {
        let mut rng = case.rng();
        let mut files = crate::corpus::ctehexml_files();
        rng.shuffle(&mut files);
        let k = 4.min(files.len());
        let mut order = vec![];
        for f in files.iter().take(k) {
            let name = f.file_name().unwrap().to_string_lossy().to_string();
            let (is_xml, full, _) = project_texts(f);
            obs.eval();
            let here = convert_text(is_xml, &full).and_then(|m| m.as_json().ok()).map(|j| md5hex(&j)).unwrap_or_else(|| "ERR".into());
            order.push(name.clone());
            match fresh("convert", f, case.index) {
                Some(h) if h.len() == 32 || h == "ERR" => {
                    obs.count("conversions_after_other_projects_compared");
                    if h != here {
                        obs.violation(
                            "conversion-depends-on-projects-converted-before",
                            format!("{} converted after {:?} on the same thread exports md5 {} but alone in a fresh process {}", name, &order[..order.len() - 1], here, h),
                            json!({"order": order}),
                        );
                        return;
                    }
                }
                other => obs.inconclusive(&format!("fresh-process-helper-failed:{:?}", other.map(|s| s.chars().take(20).collect::<String>()))),
            }
        }
        obs.nontrivial(crate::rng::fnv64(order.join(">").as_bytes()));
        // the same project re-converted after the user edited one of its own materials (same name, other value)
        let b = gen_building(&mut rng, &BuildCfg::full());
        let mut b2 = b.clone();
        let mut edited = None;
        for m in b2.materials.iter_mut() {
            if let Some(crate::gen::bdl::AVal::Num(c)) = m.get("CONDUCTIVITY").cloned() {
                m.set("CONDUCTIVITY", crate::gen::bdl::AVal::Num(c * 2.0 + 0.1));
                edited = Some(m.name.clone());
                break;
            }
        }
        if let Some(mat) = edited {
            let t1 = b.ctehexml(&print_blocks(&mut rng, &b.blocks(), &Layout::hulc()), "");
            let t2 = b2.ctehexml(&print_blocks(&mut rng, &b2.blocks(), &Layout::hulc()), "");
            let scratch = crate::core::tmp_dir().join(format!("c05hist.{}.ctehexml", std::process::id()));
            if std::fs::write(&scratch, &t2).is_ok() {
                obs.eval();
                let _ = convert_text(true, &t1);
                let here = convert_text(true, &t2).and_then(|m| m.as_json().ok()).map(|j| md5hex(&j)).unwrap_or_else(|| "ERR".into());
                match fresh("convert", &scratch, case.index + 1) {
                    Some(h) if h.len() == 32 || h == "ERR" => {
                        obs.count("conversions_after_an_earlier_version_compared");
                        if h != here {
                            obs.violation(
                                "conversion-depends-on-projects-converted-before",
                                format!("a generated project converted after its own earlier version (material {:?} edited) exports md5 {} but alone in a fresh process {}", mat, here, h),
                                json!({"edited_material": mat}),
                            );
                        }
                    }
                    other => obs.inconclusive(&format!("fresh-process-helper-failed:{:?}", other.map(|s| s.chars().take(20).collect::<String>()))),
                }
                let _ = std::fs::remove_file(&scratch);
            }
        }
    }

    /// (h) auxiliary: the 2-thread workload of examples/miri_c05.rs under Miri (undefined behaviour and data race
    /// interpreter) with 8 scheduler seeds; anything that keeps Miri from running is inconclusive, never a violation
    fn miri(&self, case: &Case, obs: &mut Obs) {
        let verif = std::path::PathBuf::from(crate::core::verif_dir());
        let first = (case.base_seed % 1000) * 8;
        let flags = format!("-Zmiri-tree-borrows -Zmiri-disable-isolation -Zmiri-many-seeds={}..{}", first, first + 8);
        obs.eval();
        let out = std::process::Command::new("cargo")
            .args(["+nightly", "miri", "run", "--offline", "--example", "miri_c05", "--", "2"])
            .current_dir(verif.join("harness"))
            .env("MIRIFLAGS", &flags)
            .env("CARGO_TARGET_DIR", verif.join("target").join("miri"))
            .env("CARGO_NET_OFFLINE", "true")
            .stdin(std::process::Stdio::null())
            .output();
        let out = match out {
            Ok(o) => o,
            Err(e) => {
                obs.inconclusive(&format!("miri-not-started: {}", e));
                return;
            }
        };
        let text = format!("{}\n{}", String::from_utf8_lossy(&out.stdout), String::from_utf8_lossy(&out.stderr));
        let ok = text.matches("MIRI-C05 OK").count() as u64;
        obs.add("miri_seeds_completed_without_report", ok);
        obs.nontrivial(crate::rng::fnv64(flags.as_bytes()));
        let report = text.lines().find(|l| l.contains("Undefined Behavior") || l.contains("Data race") || l.contains("data race") || l.contains("MIRI-C05 DIFFER"));
        if let Some(l) = report {
            let class = if l.contains("DIFFER") { "results-differ-between-threads" } else if l.to_lowercase().contains("data race") { "data-race" } else { "undefined-behaviour" };
            let at = text.lines().skip_while(|x| *x != l).find(|x| x.trim_start().starts_with("-->")).unwrap_or("").trim().to_string();
            obs.violation(&format!("miri:{}", class), format!("cargo miri run --example miri_c05 ({}): {} {}", flags, l.trim(), at), json!({"MIRIFLAGS": flags, "output_tail": text.chars().rev().take(3000).collect::<String>().chars().rev().collect::<String>()}));
        } else if ok == 0 || !out.status.success() {
            obs.inconclusive(&format!("miri-run-incomplete: exit {:?}, {} seeds completed", out.status.code(), ok));
        }
        obs.sample(json!({"miri": {"MIRIFLAGS": flags, "seeds_completed_without_report": ok, "exit": out.status.code()}}));
    }

    /// (g) the shipped reference pairs
    fn reference(&self, case: &Case, obs: &mut Obs) {
        let pairs = crate::corpus::reference_pairs();
        let (proj, reference) = &pairs[case.index as usize];
        let name = proj.file_name().unwrap().to_string_lossy().to_string();
        obs.eval();
        // exactly what `thor FILE -o OUT` does
        let m = match guard(|| hulc::ctehexml::parse_with_catalog_from_path(proj).and_then(|d| Model::try_from(&d))) {
            Ok(Ok(m)) => m,
            _ => {
                obs.violation("reference-project-does-not-convert", format!("{} does not convert", name), json!({}));
                return;
            }
        };
        let got: Value = serde_json::from_str(&m.as_json().unwrap_or_default()).unwrap_or(Value::Null);
        let want: Value = serde_json::from_str(&crate::corpus::read_utf8(reference)).unwrap_or(Value::Null);
        let mut diffs = vec![];
        diff_values(&want, &got, "$", &mut diffs);
        obs.count("reference_pairs_compared");
        obs.nontrivial_str(&name);
        if !diffs.is_empty() {
            obs.violation("reference-model-differs", format!("{} no longer converts to {}: {}", name, reference.file_name().unwrap().to_string_lossy(), diffs.join("; ")), json!({"diffs": diffs}));
        }
        obs.sample(json!({"project": name, "reference": reference.file_name().unwrap().to_string_lossy(), "differences": diffs.len()}));
    }
}

use std::convert::TryFrom;

fn diff_values(a: &Value, b: &Value, path: &str, out: &mut Vec<String>) {
    if out.len() > 5 {
        return;
    }
    match (a, b) {
        (Value::Object(x), Value::Object(y)) => {
            for k in x.keys() {
                if !y.contains_key(k) {
                    out.push(format!("{}.{} missing in the conversion", path, k));
                }
            }
            for k in y.keys() {
                if !x.contains_key(k) {
                    out.push(format!("{}.{} not in the reference", path, k));
                }
            }
            for (k, v) in x {
                if let Some(w) = y.get(k) {
                    diff_values(v, w, &format!("{}.{}", path, k), out);
                }
            }
        }
        (Value::Array(x), Value::Array(y)) => {
            if x.len() != y.len() {
                out.push(format!("{}: {} items in the reference, {} converted", path, x.len(), y.len()));
                return;
            }
            for (i, (v, w)) in x.iter().zip(y.iter()).enumerate() {
                diff_values(v, w, &format!("{}[{}]", path, i), out);
            }
        }
        (Value::Number(x), Value::Number(y)) => {
            let (fx, fy) = (x.as_f64().unwrap_or(f64::NAN) as f32, y.as_f64().unwrap_or(f64::NAN) as f32);
            if fx != fy {
                out.push(format!("{}: {} in the reference, {} converted", path, x, y));
            }
        }
        (x, y) => {
            if x != y {
                out.push(format!("{}: {} vs {}", path, x.to_string().chars().take(50).collect::<String>(), y.to_string().chars().take(50).collect::<String>()));
            }
        }
    }
}

impl Property for C05 {
    fn id(&self) -> &'static str {
        "C05"
    }
    fn rule(&self) -> String {
        "every convertible shipped project converted repeatedly in one process and in fresh processes with varied environment size / working directory / logging (md5 of as_json must be identical; std's per-process hash seeds and ASLR differ); 16 threads behind a barrier, each converting projects and computing indicators of shipped models in its own random order, against a sequential baseline (distinct completion-order signatures are counted); generated projects re-printed with one unrelated definition appended (material, construction, schedules, shade, a whole space with walls): every pre-existing element keeps its id; ordered pairs (A computed before B) where B is a variant of A with the same ids but other shades / zone / orientation / constructions / meta data, or an unrelated model, against B computed in a fresh process; fingerprint of the three process-wide climate tables before/after; the 6 shipped (project, reference model) pairs compared as JSON values at f32 precision; non-trivial = distinct project / interleaving signature / pair; thorough only, auxiliary: examples/miri_c05.rs (indicators + JSON of cubo.json on the main thread, on 2 concurrent threads and again afterwards, all equal) interpreted by Miri with tree borrows under 8 scheduler seeds derived from VERIF_SEED; a Miri report (undefined behaviour, data race) or differing results is a violation, a Miri step that cannot run is inconclusive".into()
    }
    fn assumptions(&self) -> Vec<String> {
        vec![
            "reference pairs are compared as JSON values at f32 precision, not as text: number spelling (1e30 vs 1e+30) belongs to the serde_json version".into(),
            "the fresh-process helper is the harness binary, which links the same library code".into(),
        ]
    }
    fn workloads(&self, tier: Tier) -> Vec<(String, u64)> {
        vec![
            ("miri".into(), tier.pick(0, 1)),
            ("convert-history".into(), tier.pick(24, 400)),
            ("repeat".into(), real_project_files().len() as u64),
            ("threads".into(), tier.pick(6, 60)),
            ("id-locality".into(), tier.pick(120, 4000)),
            ("history".into(), tier.pick(60, 1500)),
            ("reference".into(), crate::corpus::reference_pairs().len() as u64),
        ]
    }
    fn shards(&self, _tier: Tier) -> usize {
        // the thread workload itself uses 16 threads
        8
    }
    fn required(&self, _tier: Tier) -> Vec<(String, u64)> {
        vec![
            ("in_process_repeats".into(), 300),
            ("fresh_process_conversions".into(), 150),
            ("concurrent_results_compared".into(), 300),
            ("ids_compared".into(), 5000),
            ("history_pairs_compared".into(), 40),
            ("history:same ids, shades removed".into(), 3),
            ("history:same ids, other climate zone".into(), 3),
            ("reference_pairs_compared".into(), 6),
            ("conversions_after_other_projects_compared".into(), 80),
            ("appended:space-with-walls".into(), 5),
        ]
    }
    fn time_cap_s(&self, tier: Tier) -> u64 {
        tier.pick(170, 2400)
    }
    fn case_timeout_s(&self, tier: Tier) -> u64 {
        // the Miri step interprets ~10^9 basic blocks: 10-20 minutes per seed, 8 seeds in parallel
        tier.pick(60, 5400)
    }
    fn run_case(&self, case: &Case, obs: &mut Obs) {
        match case.kind {
            "miri" => self.miri(case, obs),
            "convert-history" => self.convert_history(case, obs),
            "repeat" => self.repeat(case, obs),
            "threads" => self.threads(case, obs),
            "id-locality" => self.id_locality(case, obs),
            "history" => self.history(case, obs),
            _ => self.reference(case, obs),
        }
    }
    fn extra_evidence(&self, agg: &Obs) -> Value {
        json!({"thread_rounds": agg.counters.get("thread_rounds"), "note": "distinct_nontrivial includes one entry per distinct completion-order signature of a 16-thread round"})
    }
}
