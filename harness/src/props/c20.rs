//! C20 Solar geometry, radiation identities and embedded climate tables are consistent

use bemodel::climatedata::{ClimateZone, CLIMATEMETADATA, JULYRADDATA, MONTHLYRADDATA};
use bemodel::{Point3, Vector3, WallGeom};
use climate::{Location, SolarRadiation};
use serde_json::json;

use crate::core::{Case, Obs, Property, Tier};
use crate::gen::model::{zone, ZONES};
use crate::oracle::geom::{axes, dot, sun_vector, unit, V3};
use crate::panicx::guard;

pub struct C20;

const MONTH_DAYS: [u32; 12] = [31, 28, 31, 30, 31, 30, 31, 31, 30, 31, 30, 31];

/// spherical astronomy: unit vector towards the sun (east, north, up); hour angle positive before noon
fn astro(lat: f64, decl: f64, omega: f64) -> V3 {
    let (p, d, w) = (lat.to_radians(), decl.to_radians(), omega.to_radians());
    [d.cos() * w.sin(), p.cos() * d.sin() - p.sin() * d.cos() * w.cos(), p.sin() * d.sin() + p.cos() * d.cos() * w.cos()]
}

fn angle_between(a: V3, b: V3) -> f64 {
    dot(unit(a), unit(b)).clamp(-1.0, 1.0).acos().to_degrees()
}

struct MetRow {
    month: u32,
    day: u32,
    hour: f32,
    rdir: f32,
    rdif: f32,
    azimuth_met: f32,
    zenith: f32,
}

fn read_met() -> Option<(f32, Vec<MetRow>)> {
    let path = std::path::PathBuf::from(crate::core::repo_dir()).join("climate/src/zonaD3.met");
    let text = std::fs::read_to_string(path).ok()?;
    let mut lines = text.lines().map(str::trim).filter(|l| !l.is_empty());
    lines.next()?;
    let loc: Vec<f32> = lines.next()?.split_whitespace().filter_map(|v| v.parse().ok()).collect();
    let mut rows = vec![];
    for l in lines {
        let v: Vec<f32> = l.split_whitespace().filter_map(|x| x.parse().ok()).collect();
        if v.len() == 13 {
            rows.push(MetRow { month: v[0] as u32, day: v[1] as u32, hour: v[2], rdir: v[5], rdif: v[6], azimuth_met: v[11], zenith: v[12] });
        }
    }
    Some((*loc.first()?, rows))
}

fn nday(month: u32, day: u32) -> u32 {
    MONTH_DAYS[..(month as usize - 1)].iter().sum::<u32>() + day
}

impl C20 {
    fn calendar(&self, obs: &mut Obs) {
        for m in 1..=12u32 {
            for d in 1..=MONTH_DAYS[m as usize - 1] {
                obs.eval();
                let want = nday(m, d);
                match guard(|| (climate::nday_from_md(m, d), climate::nday_from_ymd(2001, m, d))) {
                    Ok((a, b)) => {
                        obs.count("dates_checked");
                        if a != want {
                            obs.violation("day-of-year:nday_from_md", format!("nday_from_md({}, {}) = {} but the calendar says {}", m, d, a, want), json!({"month": m, "day": d}));
                        }
                        if b != want {
                            obs.violation("day-of-year:nday_from_ymd", format!("nday_from_ymd(2001, {}, {}) = {} but the calendar says {}", m, d, b, want), json!({"month": m, "day": d}));
                        }
                    }
                    Err(p) => {
                        obs.panic_violation(&p, json!({"where": "nday_from_md / nday_from_ymd", "month": m, "day": d}));
                    }
                }
                obs.nontrivial((m * 100 + d) as u64);
            }
        }
    }

    /// one latitude row of the grid (or random points)
    fn sun_grid(&self, case: &Case, obs: &mut Obs, step: f64) {
        let nlat = (132.0 / step) as u64 + 1;
        let lat = -66.0 + step * (case.index % nlat) as f64;
        let mut viol = 0;
        let mut worst: f64 = 0.0;
        let mut d = -23.45;
        while d <= 23.45 + 1e-9 {
            let mut w = -180.0 + step / 2.0;
            while w < 180.0 {
                self.sun_one(lat as f32, d as f32, w as f32, obs, &mut viol, &mut worst);
                w += step;
            }
            d += step.max(0.5);
        }
        obs.max("max:sun_position_error_millideg", (worst * 1000.0) as u64);
        obs.nontrivial(crate::rng::fnv64(format!("lat{}", lat).as_bytes()));
    }

    fn sun_one(&self, lat: f32, decl: f32, omega: f32, obs: &mut Obs, viol: &mut u32, worst: &mut f64) {
        let want = astro(lat as f64, decl as f64, omega as f64);
        let alt_true = want[2].asin().to_degrees();
        if alt_true <= 0.5 {
            obs.count("sun_below_horizon_skipped");
            return;
        }
        obs.eval();
        let sp = climate::sun_position(decl, omega, Location { latitude: lat, longitude: 0.0, tz: 0 });
        let got = sun_vector(sp.azimuth as f64, sp.altitude as f64);
        let err = angle_between(got, want);
        obs.count("sun_positions_checked");
        if err.is_finite() {
            *worst = worst.max(err);
        }
        if !(err <= 0.1) {
            *viol += 1;
            if *viol <= 2 {
                let class = if (sp.altitude as f64 - alt_true).abs() > 0.05 { "altitude" } else { "azimuth" };
                obs.violation(
                    &format!("sun-position:{}", class),
                    format!("latitude {} declination {} hour angle {}: sun_position gives azimuth {} altitude {}, {:.3} degrees away from spherical astronomy (true altitude {:.3})", lat, decl, omega, sp.azimuth, sp.altitude, err, alt_true),
                    json!({"latitude": lat, "declination": decl, "hourangle": omega}),
                );
            }
        }
    }

    fn surface_angles(&self, case: &Case, obs: &mut Obs) {
        let mut rng = case.rng();
        for _ in 0..2000 {
            let lat = rng.dec(-66.0, 66.0, 2) as f32;
            let decl = rng.dec(-23.45, 23.45, 2) as f32;
            let omega = rng.dec(-179.9, 179.9, 1) as f32;
            let tilt = if rng.chance(0.3) { *rng.pick(&[0.0f32, 90.0, 180.0, 45.0]) } else { rng.dec(0.0, 180.0, 1) as f32 };
            let az = if rng.chance(0.3) { *rng.pick(&[0.0f32, 90.0, -90.0, 180.0, -180.0, 45.0]) } else { rng.dec(-180.0, 180.0, 1) as f32 };
            let sun = astro(lat as f64, decl as f64, omega as f64);
            obs.eval();
            // outward normal under the model's tilt/azimuth convention, taken from the model itself
            let geom = WallGeom { tilt, azimuth: az, position: Some(Point3::new(0.0, 0.0, 0.0)), polygon: vec![] };
            let n = geom.to_global_coords_matrix().unwrap() * Vector3::new(0.0, 0.0, 1.0);
            let n64: V3 = [n.x as f64, n.y as f64, n.z as f64];
            // and from the harness's own reading of the convention: they must agree
            let (_, _, ez) = axes(tilt as f64, az as f64);
            if angle_between(n64, ez) > 0.01 {
                obs.violation("surface-normal-convention", format!("WallGeom{{tilt {}, azimuth {}}}.normal() = {:?} but Rz(az)Rx(tilt)z = {:?}", tilt, az, n64, ez), json!({}));
                return;
            }
            let want = angle_between(sun, ez);
            let got = climate::solar::angle_sol_surf(decl, omega, lat, tilt, az) as f64;
            obs.count("surface_angles_checked");
            // acos is ill-conditioned at 0 and 180
            let tol = if want < 2.0 || want > 178.0 { 0.35 } else { 0.05 };
            if !((got - want).abs() <= tol) {
                obs.violation(
                    "incidence-angle",
                    format!("angle_sol_surf(decl {}, w {}, lat {}, tilt {}, az {}) = {} but the angle between sun and outward normal is {:.3}", decl, omega, lat, tilt, az, got, want),
                    json!({"latitude": lat, "declination": decl, "hourangle": omega, "tilt": tilt, "azimuth": az}),
                );
                return;
            }
            // the other public route to the incidence angle
            let ssa = climate::solar::sunsurface_angles(decl, omega, climate::solar::Location { latitude: lat, longitude: 0.0, tz: 0 }, tilt, az);
            obs.count("surface_angles_checked_through_sunsurface_angles");
            if !((ssa.angle as f64 - want).abs() <= tol) {
                obs.violation(
                    "incidence-angle:sunsurface_angles",
                    format!("sunsurface_angles(decl {}, w {}, lat {}, tilt {}, az {}).angle = {} but the angle between sun and outward normal is {:.3}", decl, omega, lat, tilt, az, ssa.angle, want),
                    json!({"latitude": lat, "declination": decl, "hourangle": omega, "tilt": tilt, "azimuth": az}),
                );
                return;
            }
            // ray_dir_to_sun equals the sun vector of (azimuth, altitude)
            let sa = rng.dec(-180.0, 180.0, 1) as f32;
            let sh = rng.dec(0.0, 90.0, 1) as f32;
            let r = bemodel::energy::ray_dir_to_sun(sa, sh);
            if angle_between([r.x as f64, r.y as f64, r.z as f64], sun_vector(sa as f64, sh as f64)) > 0.01 {
                obs.violation("ray-dir-to-sun", format!("ray_dir_to_sun({}, {}) = {:?}", sa, sh, r), json!({}));
                return;
            }
        }
        obs.nontrivial(crate::rng::fnv64(format!("angles{}", case.index).as_bytes()));
    }

    /// radiation identities over the hours of the shipped weather file (a slice of them per case)
    fn radiation_met(&self, case: &Case, obs: &mut Obs) {
        let (lat, rows) = match read_met() {
            Some(x) => x,
            None => {
                obs.harness_error("cannot read climate/src/zonaD3.met".into());
                return;
            }
        };
        let mut rng = case.rng();
        let chunk = rows.len() / 73 + 1;
        let lo = case.index as usize * chunk;
        for r in rows.iter().skip(lo).take(chunk) {
            let n = nday(r.month, r.day);
            let gsol = SolarRadiation { dir: r.rdir, dif: r.rdif };
            let alt = 90.0 - r.zenith;
            let global = (r.rdir + r.rdif) as f64;
            // horizontal surface: any azimuth
            let az = rng.dec(-180.0, 180.0, 0) as f32;
            obs.eval();
            let h = climate::radiation_for_surface(n, r.hour, gsol, lat, 0.0, az, 0.2);
            if alt >= 6.0 {
                obs.count("hours_with_sun_above_6_degrees");
                if !(((h.dir + h.dif) as f64 - global).abs() <= 0.02 + 1e-4 * global) {
                    obs.violation("horizontal-surface-does-not-return-horizontal-input", format!("month {} day {} hour {}: horizontal surface receives {} + {} but the input is {} + {}", r.month, r.day, r.hour, h.dir, h.dif, r.rdir, r.rdif), json!({}));
                    return;
                }
            }
            // downward-facing surface: albedo * global, no beam
            let albedo = *rng.pick(&[0.2f32, 0.0, 0.35, 1.0]);
            let dn = climate::radiation_for_surface(n, r.hour, gsol, lat, 180.0, az, albedo);
            obs.count("downward_surfaces_checked");
            if !((dn.dir as f64).abs() <= 1e-3 && ((dn.dif as f64) - albedo as f64 * global).abs() <= 0.02 + 2e-4 * global) {
                obs.violation("downward-surface-not-albedo-times-global", format!("month {} day {} hour {}: downward surface receives dir {} dif {} but albedo {} x global {} = {}", r.month, r.day, r.hour, dn.dir, dn.dif, albedo, global, albedo as f64 * global), json!({}));
                return;
            }
            // any surface: beam never negative, values finite
            for _ in 0..3 {
                let (t, a) = (rng.dec(0.0, 180.0, 0) as f32, rng.dec(-180.0, 180.0, 0) as f32);
                let s = climate::radiation_for_surface(n, r.hour, gsol, lat, t, a, 0.2);
                obs.eval();
                obs.count("random_surfaces_checked");
                if !(s.dir >= 0.0 && s.dir.is_finite() && s.dif.is_finite()) {
                    obs.violation("beam-negative-or-not-finite", format!("month {} day {} hour {} tilt {} az {}: dir {} dif {}", r.month, r.day, r.hour, t, a, s.dir, s.dif), json!({}));
                    return;
                }
            }
        }
        obs.nontrivial(crate::rng::fnv64(format!("met{}", case.index).as_bytes()));
    }

    /// the sun at and near the zenith: every day of the year x latitudes -30..30 in steps of 0.1 degree at solar noon,
    /// where the altitude is 90 - |latitude - declination| (the place where sin(alt) is within an ulp of 1)
    fn noon_altitude(&self, obs: &mut Obs) {
        for n in 1..=365u32 {
            let d = climate::solar::declination_from_nday(n);
            for li in -300..=300 {
                let lat = li as f32 / 10.0;
                obs.eval();
                let want = 90.0 - (lat as f64 - d as f64).abs();
                for w in [0.0f32, 0.25, -0.25] {
                    let got = climate::solar::altitude_sol_from_data(d, w, lat) as f64;
                    // a quarter of a degree of hour angle lowers the sun by at most 0.25 degree
                    let ok = if w == 0.0 { (got - want).abs() <= 0.05 } else { got <= want + 0.05 && got >= want - 0.3 };
                    if !ok {
                        obs.violation("sun-altitude-near-zenith", format!("day {} latitude {} hour angle {}: altitude {} but the sun stands at {:.3} degrees at noon (declination {})", n, lat, w, got, want, d), json!({"nday": n, "latitude": lat, "hourangle": w}));
                        return;
                    }
                }
                obs.count("noon_altitudes_checked");
            }
        }
        obs.nontrivial(crate::rng::fnv64(b"noon-altitude"));
    }

    fn radiation_random(&self, case: &Case, obs: &mut Obs) {
        let mut rng = case.rng();
        for _ in 0..3000 {
            let n = 1 + rng.below(365) as u32;
            let hour = rng.dec(1.0, 24.0, 1) as f32;
            let lat = rng.dec(-66.0, 66.0, 1) as f32;
            // beam radiation only while the sun is up (hour ~ solar time, see hourangle_from_tsol)
            let decl = climate::solar::declination_from_nday(n) as f64;
            let omega = (12.5 - hour as f64) * 15.0;
            let alt = astro(lat as f64, decl, omega)[2].asin().to_degrees();
            if alt < 1.0 {
                // night: a weather file has no radiation then, and the identities are about radiation
                obs.count("random_night_hours_skipped");
                continue;
            }
            let gsol = SolarRadiation { dir: if alt < 6.0 || rng.chance(0.2) { 0.0 } else { rng.dec(0.0, 900.0, 0) as f32 }, dif: rng.dec(0.0, 400.0, 0) as f32 };
            let (t, a) = (rng.dec(0.0, 180.0, 0) as f32, rng.dec(-180.0, 180.0, 0) as f32);
            obs.eval();
            let s = climate::radiation_for_surface(n, hour, gsol, lat, t, a, 0.2);
            obs.count("random_surfaces_checked");
            if !(s.dir >= 0.0) || !s.dir.is_finite() || !s.dif.is_finite() {
                obs.violation("beam-negative-or-not-finite", format!("nday {} hour {} lat {} tilt {} az {} input {:?}: dir {} dif {}", n, hour, lat, t, a, gsol, s.dir, s.dif), json!({}));
                return;
            }
            // tilt 180 receives albedo * global whatever the sun does
            let albedo = rng.dec(0.0, 1.0, 2) as f32;
            let dn = climate::radiation_for_surface(n, hour, gsol, lat, 180.0, a, albedo);
            let global = (gsol.dir + gsol.dif) as f64;
            if !((dn.dir as f64).abs() <= 1e-3 && ((dn.dif as f64) - albedo as f64 * global).abs() <= 0.05 + 3e-4 * global) {
                obs.violation("downward-surface-not-albedo-times-global", format!("nday {} hour {} lat {}: downward surface dir {} dif {}, albedo {} x global {}", n, hour, lat, dn.dir, dn.dif, albedo, global), json!({}));
                return;
            }
        }
        obs.nontrivial(crate::rng::fnv64(format!("rnd{}", case.index).as_bytes()));
    }

    /// G_sol_b over every sun altitude in [-90, 90] (0.01 degree steps) x five horizontal direct inputs: the beam value is
    /// finite and never negative whatever altitude a weather file yields (zenith > 90 at sunrise/sunset), and equals
    /// dir / sin(altitude) once the sun is clearly up
    fn beam_sweep(&self, obs: &mut Obs) {
        for ai in -9000..=9000i32 {
            let alt = ai as f32 / 100.0;
            for dir in [0.0f32, 0.5, 15.0, 300.0, 950.0] {
                obs.eval();
                obs.count("beam_values_checked");
                let b = climate::solar::G_sol_b(dir, alt);
                if !b.is_finite() || b < 0.0 {
                    obs.violation("beam-negative-or-not-finite:G_sol_b", format!("G_sol_b(dir {}, altitude {}) = {}", dir, alt, b), json!({"dir": dir, "altitude": alt, "got": b}));
                    return;
                }
                if alt >= 1.0 {
                    let want = dir as f64 / (alt as f64).to_radians().sin();
                    if (b as f64 - want).abs() > 1e-3 * want.max(1.0) {
                        obs.violation("beam-value:G_sol_b", format!("G_sol_b(dir {}, altitude {}) = {}, dir/sin(altitude) = {}", dir, alt, b, want), json!({"dir": dir, "altitude": alt, "got": b, "want": want}));
                        return;
                    }
                }
                // the direct part on any surface built from it is not negative either
                let i = climate::solar::I_dir(b, (ai.rem_euclid(181)) as f32);
                if !i.is_finite() || i < 0.0 {
                    obs.violation("beam-negative-or-not-finite:I_dir", format!("I_dir({}, {}) = {}", b, ai.rem_euclid(181), i), json!({}));
                    return;
                }
            }
            if ai % 100 == 0 {
                obs.nontrivial(crate::rng::fnv64(format!("beam{}", ai).as_bytes()));
            }
        }
    }

    fn tables(&self, case: &Case, obs: &mut Obs) {
        let zname = ZONES[case.index as usize];
        let z = zone(zname);
        obs.eval();
        obs.nontrivial(crate::rng::fnv64(zname.as_bytes()));
        // round trip through ClimateZone <-> str
        let shown = format!("{}", z);
        match ClimateZone::try_from(shown.as_str()) {
            Ok(back) if back == z && shown == zname => {}
            _ => obs.violation("zone-name-roundtrip", format!("zone {} prints as {} and does not parse back", zname, shown), json!({})),
        }
        let meta_ok = CLIMATEMETADATA.lock().unwrap_or_else(|e| e.into_inner()).get(&z).map(|m| m.latitude.is_finite() && m.latitude.abs() < 66.0);
        if meta_ok != Some(true) {
            obs.violation("zone-metadata-missing", format!("zone {} has no (sane) metadata entry", zname), json!({}));
        }
        // monthly table: 9 orientations x 12 months, non-negative
        let names = ["N", "NE", "E", "SE", "S", "SW", "W", "NW", "Horiz."];
        {
            let t = MONTHLYRADDATA.lock().unwrap_or_else(|e| e.into_inner());
            for o in names {
                let rows: Vec<_> = t.iter().filter(|e| e.zone == z && format!("{}", e.orientation) == o).collect();
                obs.count("monthly_entries_checked");
                if rows.len() != 1 {
                    obs.violation("monthly-table-entry", format!("zone {} orientation {}: {} entries", zname, o, rows.len()), json!({}));
                    continue;
                }
                let e = rows[0];
                if e.dir.len() != 12 || e.dif.len() != 12 || !e.dir.iter().chain(e.dif.iter()).all(|v| v.is_finite() && *v >= 0.0) {
                    obs.violation("monthly-table-shape-or-sign", format!("zone {} orientation {}: dir {:?} dif {:?}", zname, o, e.dir, e.dif), json!({}));
                }
            }
        }
        match guard(|| bemodel::climatedata::total_radiation_in_july_by_orientation(&z)) {
            Ok(m) => {
                if m.len() != 9 || !m.values().all(|v| v.is_finite() && *v >= 0.0) {
                    obs.violation("july-total-by-orientation", format!("zone {}: {} orientations in total_radiation_in_july_by_orientation", zname, m.len()), json!({}));
                }
            }
            Err(p) => obs.panic_violation(&p, json!({"where": "total_radiation_in_july_by_orientation", "zone": zname})),
        }
        // July design day: 14 rows, altitudes in (0,90], non-negative
        {
            let t = JULYRADDATA.lock().unwrap_or_else(|e| e.into_inner());
            match t.get(&z) {
                None => obs.violation("july-table-missing", format!("zone {} has no July table", zname), json!({})),
                Some(rows) => {
                    obs.add("july_rows_checked", rows.len() as u64);
                    if rows.len() != 14 {
                        obs.violation("july-table-rows", format!("zone {}: {} rows", zname, rows.len()), json!({}));
                    }
                    for r in rows {
                        if !(r.altitude > 0.0 && r.altitude <= 90.0 && r.dir >= 0.0 && r.dif >= 0.0 && r.month == 7 && (1..=31).contains(&r.day) && r.azimuth.abs() <= 180.0) {
                            obs.violation("july-table-row", format!("zone {}: row {:?}", zname, r), json!({}));
                            break;
                        }
                    }
                }
            }
        }
        if zname != "D3" {
            return;
        }
        // the zone whose weather file is shipped
        let (lat, rows) = match read_met() {
            Some(x) => x,
            None => return,
        };
        {
            let t = JULYRADDATA.lock().unwrap_or_else(|e| e.into_inner());
            if let Some(table) = t.get(&z) {
                let day = table.first().map(|r| r.day).unwrap_or(1);
                let met: Vec<&MetRow> = rows.iter().filter(|r| r.month == 7 && r.day == day && (r.rdir > 0.0 || r.rdif > 0.0)).collect();
                obs.count("d3_july_rows_compared_with_met");
                let same = met.len() == table.len()
                    && met.iter().zip(table.iter()).all(|(a, b)| {
                        a.hour == b.hour && (a.rdir - b.dir).abs() < 0.51 && (a.rdif - b.dif).abs() < 0.51 && ((90.0 - a.zenith) - b.altitude).abs() < 0.051 && ((-a.azimuth_met) - b.azimuth).abs() < 0.051
                    });
                if !same {
                    obs.violation("july-table-differs-from-weather-file", format!("D3: the July table ({} rows, day {}) is not the weather file's rows of that day ({} rows)", table.len(), day, met.len()), json!({"table": format!("{:?}", table.iter().take(3).collect::<Vec<_>>())}));
                }
            }
        }
        // monthly table == radiation model over the file, 9 standard orientations
        let metdata = match climate::met::parsemet(std::fs::read_to_string(std::path::PathBuf::from(crate::core::repo_dir()).join("climate/src/zonaD3.met")).unwrap_or_default()) {
            Ok(m) => m,
            Err(e) => {
                obs.violation("weather-file-does-not-parse", format!("{}", e), json!({}));
                return;
            }
        };
        let _ = lat;
        let std_or: [(&str, f32, f32); 9] = [("Horiz.", 0.0, 0.0), ("S", 90.0, 0.0), ("SE", 90.0, 45.0), ("E", 90.0, 90.0), ("NE", 90.0, 135.0), ("N", 90.0, 180.0), ("NW", 90.0, -135.0), ("W", 90.0, -90.0), ("SW", 90.0, -45.0)];
        let t = MONTHLYRADDATA.lock().unwrap_or_else(|e| e.into_inner()).clone();
        for (name, tilt, az) in std_or {
            let e = match t.iter().find(|e| e.zone == z && format!("{}", e.orientation) == name) {
                Some(e) => e,
                None => continue,
            };
            let monthly = |azimuth: f32| -> ([f64; 12], [f64; 12]) {
                let rad = climate::met::period_radiation_for_surface(&metdata.data, metdata.meta.latitude, tilt, azimuth, 0.2);
                let mut dir = [0.0f64; 12];
                let mut dif = [0.0f64; 12];
                for r in &rad {
                    dir[r.month as usize - 1] += r.dir as f64 / 1000.0;
                    dif[r.month as usize - 1] += r.dif as f64 / 1000.0;
                }
                (dir, dif)
            };
            let (dir, dif) = monthly(az);
            // the same surface mirrored east <-> west
            let (mdir, mdif) = monthly(-az);
            let fits = |d: &[f64; 12], f: &[f64; 12]| (0..12).all(|i| (e.dir[i] as f64 - d[i]).abs() <= 0.0056 && (e.dif[i] as f64 - f[i]).abs() <= 0.0056);
            if !fits(&dir, &dif) && fits(&mdir, &mdif) {
                obs.add("d3_monthly_values_compared_with_model", 12);
                obs.violation(
                    "monthly-table-east-west-mirrored",
                    format!("D3 {}: the table row equals the radiation model for the mirrored surface (azimuth {} instead of {} from south, east positive): east and west facing rows are swapped with respect to the model's and the building model's convention", name, -az, az),
                    json!({"orientation": name, "table_dir": e.dir, "model_dir": dir.to_vec(), "model_dir_mirrored": mdir.to_vec()}),
                );
                continue;
            }
            for mth in 0..12 {
                obs.eval();
                obs.count("d3_monthly_values_compared_with_model");
                let (td, tf) = (e.dir[mth] as f64, e.dif[mth] as f64);
                if (td - dir[mth]).abs() > 0.0056 || (tf - dif[mth]).abs() > 0.0056 {
                    obs.violation(
                        &format!("monthly-table-differs-from-radiation-model:{}", if (td - dir[mth]).abs() > 0.0056 { "dir" } else { "dif" }),
                        format!("D3 {} month {}: table dir {} dif {} but the model over zonaD3.met gives dir {:.4} dif {:.4} (surface tilt {}, azimuth {} from south, east positive)", name, mth + 1, td, tf, dir[mth], dif[mth], tilt, az),
                        json!({"orientation": name}),
                    );
                    return;
                }
            }
        }
    }
}

impl Property for C20 {
    fn id(&self) -> &'static str {
        "C20"
    }
    fn rule(&self) -> String {
        "all 365 (month, day) pairs against the harness's month table; sun_position on a latitude [-66,66] x declination [-23.45,23.45] x hour-angle (-180,180) grid (quick 1 degree, thorough 0.5 degrees) compared as a direction vector (great-circle error <= 0.1 degree) with spherical astronomy whenever the true altitude exceeds 0.5 degrees; the noon altitude for every day x latitude -30..30 in 0.1 degree steps (sun at and near the zenith); angle_sol_surf and sunsurface_angles().angle against the angle between that vector and WallGeom::normal() for random tilts/azimuths; ray_dir_to_sun; radiation identities over all 8760 hours of zonaD3.met (horizontal surface = input for altitude >= 6, tilt 180 = albedo x global and no beam, beam >= 0) and random inputs; G_sol_b itself for every altitude -90..90 in 0.01 degree steps x 5 direct inputs (finite, >= 0, = dir/sin(alt) from 1 degree up); tables: 32 zones x 9 orientations x 12 months and 14 July rows present, shaped and non-negative; for D3: July rows equal the weather file's rows, monthly table equals the radiation model summed per month to +-0.0056; non-trivial = distinct date / latitude row / hour slice / zone".into()
    }
    fn assumptions(&self) -> Vec<String> {
        vec![
            "hour angle is positive before solar noon (the library's convention); azimuth from south, east positive".into(),
            "tables of the 31 zones without a shipped weather file are checked for presence, shape and sign only".into(),
        ]
    }
    fn workloads(&self, tier: Tier) -> Vec<(String, u64)> {
        let step = tier.pick(10, 5) as f64 / 10.0;
        vec![
            ("calendar".into(), 1),
            ("noon-altitude".into(), 1),
            ("beam-sweep".into(), 1),
            ("sun-grid".into(), (132.0 / step) as u64 + 1),
            ("surface-angles".into(), tier.pick(200, 3000)),
            ("radiation-met".into(), 73),
            ("radiation-random".into(), tier.pick(100, 2000)),
            ("tables".into(), 32),
        ]
    }
    fn required(&self, tier: Tier) -> Vec<(String, u64)> {
        vec![
            ("dates_checked".into(), 365),
            ("noon_altitudes_checked".into(), 219_000),
            ("beam_values_checked".into(), 90_000),
            ("sun_positions_checked".into(), tier.pick(500_000, 4_000_000)),
            ("surface_angles_checked".into(), 100_000),
            ("hours_with_sun_above_6_degrees".into(), 3900),
            ("downward_surfaces_checked".into(), 8760),
            ("monthly_entries_checked".into(), 288),
            ("july_rows_checked".into(), 448),
            ("d3_monthly_values_compared_with_model".into(), 108),
            ("d3_july_rows_compared_with_met".into(), 1),
        ]
    }
    fn run_case(&self, case: &Case, obs: &mut Obs) {
        match case.kind {
            "calendar" => self.calendar(obs),
            "noon-altitude" => self.noon_altitude(obs),
            "beam-sweep" => self.beam_sweep(obs),
            "sun-grid" => self.sun_grid(case, obs, case.tier.pick(10, 5) as f64 / 10.0),
            "surface-angles" => self.surface_angles(case, obs),
            "radiation-met" => self.radiation_met(case, obs),
            "radiation-random" => self.radiation_random(case, obs),
            _ => self.tables(case, obs),
        }
        if obs.samples.len() < 2 && case.kind == "sun-grid" {
            let sp = climate::sun_position(10.0, 30.0, Location { latitude: 40.0, longitude: 0.0, tz: 0 });
            obs.sample(json!({"latitude": 40.0, "declination": 10.0, "hourangle": 30.0, "sun_position": [sp.azimuth, sp.altitude], "astronomy_vector_ENU": astro(40.0, 10.0, 30.0)}));
        }
    }
}
