//! C13 Ray casting: accelerated queries equal exhaustive ones and match exact geometry

use std::cell::Cell;

use bemodel::energy::{Bounded, Intersectable, Ray, AABB, BVH};
use bemodel::{Model, Point2, Point3, Shade, Vector3, WallGeom};
use serde_json::{json, Value};

use crate::core::{Case, Obs, Property, Tier};
use crate::gen::model::{gen_model, uuid, GenCfg};
use crate::oracle::geom::{cyclic_match, global_points, ray_polygon, reveal_quads, unit, Hit, V3};
use crate::panicx::guard;
use crate::rng::Rng;

pub struct C13;

thread_local! {
    static AABB_CALLS: Cell<u64> = Cell::new(0);
    static AABB_BUDGET: Cell<u64> = Cell::new(u64::MAX);
}

/// element whose `aabb()` counts calls: a build that does not progress exceeds its logical-step budget
#[derive(Clone, Copy)]
struct El {
    b: AABB,
}
impl Bounded for El {
    fn aabb(&self) -> AABB {
        AABB_CALLS.with(|c| {
            let n = c.get() + 1;
            c.set(n);
            if n > AABB_BUDGET.with(|b| b.get()) {
                panic!("verif: aabb() call budget exceeded (BVH build does not terminate)");
            }
        });
        self.b
    }
}
impl Intersectable for El {
    fn intersects(&self, ray: &Ray) -> Option<f32> {
        self.b.intersects(ray)
    }
}

fn p3(x: f64, y: f64, z: f64) -> Point3 {
    Point3::new(x as f32, y as f32, z as f32)
}

fn rand_box(rng: &mut Rng, centre: Option<[f64; 3]>) -> AABB {
    let c = centre.unwrap_or([rng.dec(-30.0, 30.0, 2), rng.dec(-30.0, 30.0, 2), rng.dec(0.0, 20.0, 2)]);
    let h = [rng.dec(0.05, 4.0, 2), rng.dec(0.05, 4.0, 2), rng.dec(0.05, 4.0, 2)];
    AABB::new(p3(c[0] - h[0], c[1] - h[1], c[2] - h[2]), p3(c[0] + h[0], c[1] + h[1], c[2] + h[2]))
}

fn rand_dir(rng: &mut Rng) -> Vector3 {
    loop {
        let v = Vector3::new(rng.range_f(-1.0, 1.0) as f32, rng.range_f(-1.0, 1.0) as f32, rng.range_f(-1.0, 1.0) as f32);
        if v.norm() > 0.1 {
            return v;
        }
    }
}

fn rays_for(rng: &mut Rng, boxes: &[AABB], n: usize) -> Vec<Ray> {
    let mut rays = vec![];
    for i in 0..n {
        let o = p3(rng.dec(-40.0, 40.0, 2), rng.dec(-40.0, 40.0, 2), rng.dec(-5.0, 30.0, 2));
        let r = match i % 4 {
            0 => Ray::new(o, rand_dir(rng)),
            1 => {
                // axis parallel
                let mut d = Vector3::new(0.0, 0.0, 0.0);
                d[rng.usize(3)] = if rng.chance(0.5) { 1.0 } else { -1.0 };
                Ray::new(o, d)
            }
            2 if !boxes.is_empty() => {
                // aimed at an element centre
                let b = boxes[rng.usize(boxes.len())];
                let c = b.center();
                let d = c - o;
                if d.norm() < 1e-3 {
                    Ray::new(o, rand_dir(rng))
                } else {
                    Ray::new(o, d)
                }
            }
            _ => {
                // from inside an element or aimed to miss upwards
                if !boxes.is_empty() && rng.chance(0.5) {
                    Ray::new(boxes[rng.usize(boxes.len())].center(), rand_dir(rng))
                } else {
                    Ray::new(p3(0.0, 0.0, 100.0), Vector3::new(rng.range_f(-0.2, 0.2) as f32, rng.range_f(-0.2, 0.2) as f32, 1.0))
                }
            }
        };
        rays.push(r);
    }
    rays
}

impl C13 {
    fn bvh_boxes(&self, rng: &mut Rng, case: &Case, obs: &mut Obs) {
        let family = case.index % 7;
        let n = match rng.usize(5) {
            0 => rng.usize(4),
            1 => rng.usize(35),
            _ => rng.usize(201),
        };
        let leaf = *rng.pick(&[1usize, 2, 2, 4, 30, 30]);
        let mut boxes: Vec<AABB> = vec![];
        let fam_name = match family {
            0 | 1 => {
                for _ in 0..n {
                    boxes.push(rand_box(rng, None));
                }
                "random"
            }
            2 => {
                // duplicated elements
                let k = 1 + rng.usize(5);
                let protos: Vec<AABB> = (0..k).map(|_| rand_box(rng, None)).collect();
                for _ in 0..n {
                    boxes.push(protos[rng.usize(k)]);
                }
                "duplicates"
            }
            3 => {
                // one common centre, different sizes
                let c = [rng.dec(-10.0, 10.0, 1), rng.dec(-10.0, 10.0, 1), rng.dec(0.0, 10.0, 1)];
                for _ in 0..n {
                    boxes.push(rand_box(rng, Some(c)));
                }
                "one-common-centre"
            }
            4 => {
                // a group with one common centre (larger than the leaf size) among other elements
                let c = [rng.dec(-10.0, 10.0, 1), rng.dec(-10.0, 10.0, 1), rng.dec(0.0, 10.0, 1)];
                let g = (leaf + 1 + rng.usize(10)).min(n.max(leaf + 2));
                for _ in 0..g {
                    boxes.push(rand_box(rng, Some(c)));
                }
                for _ in 0..(1 + rng.usize(1 + n.saturating_sub(g))) {
                    boxes.push(rand_box(rng, None));
                }
                rng.shuffle(&mut boxes);
                "common-centre-group-among-others"
            }
            5 => {
                // collinear centres
                let ax = rng.usize(3);
                for i in 0..n {
                    let mut c = [1.0, 2.0, 3.0];
                    c[ax] = i as f64 * rng.dec(0.0, 2.0, 1);
                    boxes.push(rand_box(rng, Some(c)));
                }
                "collinear-centres"
            }
            _ => {
                // flat boxes (planar elements), some identical
                for _ in 0..n {
                    let mut b = rand_box(rng, None);
                    let ax = rng.usize(3);
                    b.max[ax] = b.min[ax];
                    boxes.push(b);
                }
                "flat-boxes"
            }
        };
        let n = boxes.len();
        obs.count(&format!("family:{}", fam_name));
        obs.count(&format!("leaf_size:{}", leaf));
        obs.count(if n == 0 {
            "set_size:0"
        } else if n == 1 {
            "set_size:1"
        } else if n <= leaf {
            "set_size:<=leaf"
        } else {
            "set_size:>leaf"
        });
        let els: Vec<El> = boxes.iter().map(|b| El { b: *b }).collect();
        let budget = 10 * (n as u64) * (n as u64) + 1000;
        AABB_CALLS.with(|c| c.set(0));
        AABB_BUDGET.with(|b| b.set(budget));
        let built = guard(|| BVH::build(els.clone(), leaf));
        let calls = AABB_CALLS.with(|c| c.get());
        AABB_BUDGET.with(|b| b.set(u64::MAX));
        obs.max("max:aabb_calls_per_build", calls);
        let ctx = |extra: Value| json!({"family": fam_name, "n": n, "leaf": leaf, "boxes": boxes.iter().take(60).map(|b| format!("{:?}", b)).collect::<Vec<_>>(), "extra": extra});
        let bvh = match built {
            Ok(b) => b,
            Err(p) => {
                obs.eval();
                if p.message.contains("budget exceeded") || p.message.contains("node bound exceeded") {
                    obs.violation("bvh-build-does-not-terminate", format!("building over {} elements ({}; leaf {}) exceeded its logical step budget: {}", n, fam_name, leaf, p.message), ctx(json!({"aabb_calls": calls})));
                } else {
                    obs.panic_violation(&p, ctx(json!({"where": "BVH::build"})));
                }
                return;
            }
        };
        obs.nontrivial(crate::rng::fnv64(format!("{}{}{}{}", fam_name, n, leaf, case.index).as_bytes()));
        for ray in rays_for(rng, &boxes, 64) {
            obs.eval();
            let exhaustive = els.iter().any(|e| e.intersects(&ray).is_some());
            let fast = match guard(|| bvh.intersects(&ray).is_some()) {
                Ok(f) => f,
                Err(p) => {
                    obs.panic_violation(&p, ctx(json!({"where": "BVH::intersects"})));
                    return;
                }
            };
            if exhaustive {
                obs.count("rays_blocked");
            } else {
                obs.count("rays_free");
            }
            if fast != exhaustive {
                obs.violation(
                    &format!("bvh-differs-from-exhaustive:{}:{}", fam_name, if n <= leaf { "set<=leaf" } else { "set>leaf" }),
                    format!("{} elements ({}), leaf {}: accelerated answer {} but testing every element gives {} for ray {:?}", n, fam_name, leaf, fast, exhaustive, ray),
                    ctx(json!({"ray": format!("{:?}", ray)})),
                );
                return;
            }
        }
        if obs.samples.len() < 2 {
            obs.sample(json!({"family": fam_name, "elements": n, "leaf_size": leaf, "aabb_calls_during_build": calls, "rays": 64}));
        }
    }

    /// the real occluders of generated models, queried the way sunlit_fraction does
    fn bvh_occluders(&self, rng: &mut Rng, case: &Case, obs: &mut Obs) {
        let mut cfg = GenCfg::geometric();
        cfg.shades = (0, 40);
        cfg.p_window = 0.6;
        cfg.schedules = false;
        cfg.unused = false;
        let mut m = gen_model(rng, &cfg).model;
        crate::gen::model::vary_outlines(rng, &mut m, 0.15);
        if rng.chance(0.3) {
            // many identical shades among the others
            if let Some(s) = m.shades.first().cloned() {
                for _ in 0..(31 + rng.usize(20)) {
                    let mut c = s.clone();
                    c.id = uuid(rng);
                    m.shades.push(c);
                }
            }
        }
        let occ = match guard(|| m.collect_occluders()) {
            Ok(o) => o,
            Err(p) => {
                obs.panic_violation(&p, json!({"where": "collect_occluders"}));
                return;
            }
        };
        let leaf = *rng.pick(&[1usize, 2, 30, 30]);
        let refs: Vec<_> = occ.iter().collect();
        let bvh = match guard(|| BVH::build(refs.clone(), leaf)) {
            Ok(b) => b,
            Err(p) => {
                if p.message.contains("node bound exceeded") {
                    obs.violation("bvh-build-does-not-terminate", format!("occluders of a generated model ({}), leaf {}: {}", occ.len(), leaf, p.message), json!({"model_json": m.as_json().ok().filter(|j| j.len() < 40000)}));
                } else {
                    obs.panic_violation(&p, json!({"where": "BVH::build over occluders"}));
                }
                return;
            }
        };
        obs.count(if occ.len() > leaf { "occluder_sets:>leaf" } else { "occluder_sets:<=leaf" });
        obs.nontrivial(crate::rng::fnv64(format!("occ{}{}", case.index, occ.len()).as_bytes()));
        let boxes: Vec<AABB> = occ.iter().map(|o| o.aabb).collect();
        let mut rays = rays_for(rng, &boxes, 48);
        for w in m.windows.iter().take(4) {
            for o in m.ray_origins_for_window(w).into_iter().take(6) {
                rays.push(Ray::new(o, bemodel::energy::ray_dir_to_sun(rng.dec(-110.0, 110.0, 0) as f32, rng.dec(5.0, 75.0, 0) as f32)));
            }
        }
        for ray in rays {
            obs.eval();
            let exhaustive = refs.iter().any(|e| e.intersects(&ray).is_some());
            let fast = match guard(|| bvh.intersects(&ray).is_some()) {
                Ok(f) => f,
                Err(p) => {
                    obs.panic_violation(&p, json!({"where": "BVH::intersects over occluders"}));
                    return;
                }
            };
            obs.count(if exhaustive { "rays_blocked" } else { "rays_free" });
            if fast != exhaustive {
                obs.violation(
                    &format!("bvh-differs-from-exhaustive:model-occluders:{}", if occ.len() <= leaf { "set<=leaf" } else { "set>leaf" }),
                    format!("{} occluders of a generated model, leaf {}: accelerated answer {} but exhaustive {} for ray {:?}", occ.len(), leaf, fast, exhaustive, ray),
                    json!({"model_json": m.as_json().ok().filter(|j| j.len() < 40000), "ray": format!("{:?}", ray)}),
                );
                return;
            }
        }
    }

    fn rand_polygon(&self, rng: &mut Rng) -> (Vec<Point2>, &'static str) {
        let kind = rng.usize(4);
        let (mut pts, name): (Vec<(f64, f64)>, &'static str) = match kind {
            0 | 1 => {
                // convex (ellipse) or star-shaped (random radii)
                let n = 3 + rng.usize(10);
                let mut angles: Vec<f64> = (0..n).map(|_| rng.range_f(0.0, 360.0)).collect();
                angles.sort_by(|a, b| a.partial_cmp(b).unwrap());
                // keep consecutive angles apart so that the outline is simple
                let mut ok = true;
                for i in 0..n {
                    let d = (angles[(i + 1) % n] - angles[i] + 360.0) % 360.0;
                    if d < 5.0 || d > 175.0 {
                        ok = false;
                    }
                }
                if !ok {
                    angles = (0..n).map(|i| 360.0 * i as f64 / n as f64 + rng.range_f(-5.0, 5.0)).collect();
                }
                let (rx, ry) = (rng.dec(0.5, 8.0, 2), rng.dec(0.5, 8.0, 2));
                let pts = angles
                    .iter()
                    .map(|a| {
                        let k = if kind == 0 { 1.0 } else { rng.range_f(0.35, 1.0) };
                        (k * rx * a.to_radians().cos(), k * ry * a.to_radians().sin())
                    })
                    .collect();
                (pts, if kind == 0 { "convex" } else { "star-shaped" })
            }
            2 => {
                let (a, b, c, d) = (rng.dec(2.0, 9.0, 2), rng.dec(2.0, 9.0, 2), rng.dec(0.5, 1.8, 2), rng.dec(0.5, 1.8, 2));
                (vec![(0.0, 0.0), (a, 0.0), (a, d), (c, d), (c, b), (0.0, b)], "L-shaped")
            }
            _ => {
                let (a, b, t) = (rng.dec(4.0, 9.0, 2), rng.dec(3.0, 9.0, 2), rng.dec(0.5, 1.5, 2));
                (vec![(0.0, 0.0), (a, 0.0), (a, b), (a - t, b), (a - t, t), (t, t), (t, b), (0.0, b)], "U-shaped")
            }
        };
        // in-plane turn, offset, optional reversal
        let th = rng.range_f(0.0, 360.0).to_radians();
        let (ox, oy) = (rng.dec(-5.0, 5.0, 2), rng.dec(-5.0, 5.0, 2));
        for p in pts.iter_mut() {
            *p = (ox + p.0 * th.cos() - p.1 * th.sin(), oy + p.0 * th.sin() + p.1 * th.cos());
        }
        if rng.chance(0.5) {
            pts.reverse();
        }
        (pts.into_iter().map(|p| Point2::new(p.0 as f32, p.1 as f32)).collect(), name)
    }

    fn polygon_exact(&self, rng: &mut Rng, case: &Case, obs: &mut Obs) {
        let (poly, shape) = self.rand_polygon(rng);
        let geom = WallGeom {
            tilt: if rng.chance(0.3) { *rng.pick(&[0.0f32, 90.0, 180.0, 270.0, 45.0]) } else { rng.dec(0.0, 359.99, 2) as f32 },
            azimuth: if rng.chance(0.3) { *rng.pick(&[0.0f32, 90.0, -90.0, 180.0, -180.0, 360.0]) } else { rng.dec(-360.0, 360.0, 2) as f32 },
            position: Some(p3(rng.dec(-50.0, 50.0, 2), rng.dec(-50.0, 50.0, 2), rng.dec(-5.0, 30.0, 2))),
            polygon: poly,
        };
        let pts = global_points(&geom).unwrap();
        // (3) the bounding box contains every corner
        obs.eval();
        match guard(|| geom.aabb()) {
            Ok(bb) => {
                obs.count("aabb_checked");
                for c in &pts {
                    let inside = (0..3).all(|k| c[k] >= bb.min[k] as f64 - 2e-4 && c[k] <= bb.max[k] as f64 + 2e-4);
                    if !inside {
                        obs.violation("aabb-does-not-contain-corner", format!("corner {:?} outside {:?}", c, bb), json!({"geometry": format!("{:?}", geom)}));
                        break;
                    }
                }
            }
            Err(p) => obs.panic_violation(&p, json!({"where": "WallGeom::aabb"})),
        }
        // the same geometry as an occluder of a model
        let mut m = Model::default();
        m.shades.push(Shade { id: uuid(rng), name: "s".into(), geometry: geom.clone() });
        let occ = guard(|| m.collect_occluders()).unwrap_or_default();
        obs.count(&format!("shape:{}", shape));
        obs.nontrivial(crate::rng::fnv64(format!("{:?}", geom).as_bytes()));
        // polygon bbox in the plane (global)
        let centroid = pts.iter().fold([0.0; 3], |a, p| [a[0] + p[0], a[1] + p[1], a[2] + p[2]]).map(|v| v / pts.len() as f64);
        let extent = pts.iter().map(|p| crate::oracle::geom::dist(*p, centroid)).fold(0.0, f64::max);
        for _ in 0..24 {
            // a target near the polygon, an origin somewhere, sometimes pointing away
            let a = pts[rng.usize(pts.len())];
            let b = pts[rng.usize(pts.len())];
            let t = rng.range_f(-0.3, 1.3);
            let s = rng.range_f(0.0, 1.2);
            let on_seg = [a[0] + (b[0] - a[0]) * t, a[1] + (b[1] - a[1]) * t, a[2] + (b[2] - a[2]) * t];
            let target = [centroid[0] + (on_seg[0] - centroid[0]) * s, centroid[1] + (on_seg[1] - centroid[1]) * s, centroid[2] + (on_seg[2] - centroid[2]) * s];
            let d = unit([rng.range_f(-1.0, 1.0), rng.range_f(-1.0, 1.0), rng.range_f(-1.0, 1.0)]);
            if !(d[0].is_finite()) || (d[0] == 0.0 && d[1] == 0.0 && d[2] == 0.0) {
                continue;
            }
            let dist = rng.range_f(0.05, 3.0 * extent + 5.0);
            let origin: V3 = [target[0] - d[0] * dist, target[1] - d[1] * dist, target[2] - d[2] * dist];
            let dir = if rng.chance(0.2) { [-d[0], -d[1], -d[2]] } else { d };
            // the library works with f32 rays: take the rounded origin/direction as the actual ray
            let ray = Ray::new(p3(origin[0], origin[1], origin[2]), Vector3::new(dir[0] as f32, dir[1] as f32, dir[2] as f32));
            let o64: V3 = [ray.origin.x as f64, ray.origin.y as f64, ray.origin.z as f64];
            let d64: V3 = unit([ray.dir.x as f64, ray.dir.y as f64, ray.dir.z as f64]);
            obs.eval();
            let want = ray_polygon(o64, d64, &pts);
            if want == Hit::Ambiguous {
                obs.ambiguous("crossing within 1 mm of the outline / origin on the plane / grazing");
                continue;
            }
            obs.count(if want == Hit::Yes { "exact:hit" } else { "exact:miss" });
            let got_geom = match guard(|| geom.intersects(&ray).is_some()) {
                Ok(g) => g,
                Err(p) => {
                    obs.panic_violation(&p, json!({"where": "WallGeom::intersects", "geometry": format!("{:?}", geom)}));
                    return;
                }
            };
            let got_occ = occ.first().map(|o| (&o).intersects(&ray).is_some());
            for (name, got) in [("WallGeom::intersects", Some(got_geom)), ("Occluder::intersects", got_occ)] {
                if let Some(g) = got {
                    if g != (want == Hit::Yes) {
                        obs.violation(
                            &format!("ray-polygon:{}:{}:{}", name, shape, if want == Hit::Yes { "missed-hit" } else { "false-hit" }),
                            format!("{} says {} but in exact arithmetic the ray {} the {} polygon (tilt {}, azimuth {})", name, g, if want == Hit::Yes { "hits" } else { "misses" }, shape, geom.tilt, geom.azimuth),
                            json!({"geometry": format!("{:?}", geom), "ray": format!("{:?}", ray), "case": case.index}),
                        );
                        return;
                    }
                }
            }
        }
    }

    /// Degenerate-on-purpose rays: polygons on a half-metre lattice in axis poses, start vertex anywhere in the
    /// outline, rays along the element's normal whose crossing point lies exactly level with a corner (the classic
    /// scanline-through-a-vertex case of point-in-polygon tests) but at least 1 mm away from the outline.
    fn polygon_lattice(&self, rng: &mut Rng, case: &Case, obs: &mut Obs) {
        let h = |rng: &mut Rng, lo: i64, hi: i64| (lo + rng.below((hi - lo + 1) as u64) as i64) as f64 * 0.5;
        let (mut pts, shape): (Vec<(f64, f64)>, &'static str) = match rng.usize(5) {
            0 => {
                // gable
                let (a, e, r) = (h(rng, 4, 16), h(rng, 2, 8), h(rng, 1, 6));
                (vec![(0.0, 0.0), (a, 0.0), (a, e), (a / 2.0, e + r), (0.0, e)], "gable")
            }
            1 => {
                let (a, b, c, d) = (h(rng, 6, 16), h(rng, 6, 16), h(rng, 1, 4), h(rng, 1, 4));
                (vec![(0.0, 0.0), (a, 0.0), (a, d), (c, d), (c, b), (0.0, b)], "L-shaped")
            }
            2 => {
                let (a, b, t) = (h(rng, 8, 18), h(rng, 6, 16), h(rng, 1, 3));
                (vec![(0.0, 0.0), (a, 0.0), (a, b), (a - t, b), (a - t, t), (t, t), (t, b), (0.0, b)], "U-shaped")
            }
            3 => {
                // trapezoid / lean-to
                let (a, b, c) = (h(rng, 4, 16), h(rng, 2, 8), h(rng, 1, 6));
                (vec![(0.0, 0.0), (a, 0.0), (a, b + c), (0.0, b)], "trapezoid")
            }
            _ => {
                // stepped outline
                let (a, b) = (h(rng, 3, 8), h(rng, 2, 6));
                (vec![(0.0, 0.0), (3.0 * a, 0.0), (3.0 * a, b), (2.0 * a, b), (2.0 * a, 2.0 * b), (a, 2.0 * b), (a, 3.0 * b), (0.0, 3.0 * b)], "stepped")
            }
        };
        let (ox, oy) = (h(rng, -10, 10), h(rng, -10, 10));
        for p in pts.iter_mut() {
            *p = (p.0 + ox, p.1 + oy);
        }
        if rng.chance(0.5) {
            pts.reverse();
        }
        let k = rng.usize(pts.len());
        pts.rotate_left(k);
        let poly: Vec<Point2> = pts.iter().map(|p| Point2::new(p.0 as f32, p.1 as f32)).collect();
        let (tilt, azimuth) = *rng.pick(&[(0.0f32, 0.0f32), (0.0, 0.0), (90.0, 0.0), (90.0, 0.0), (90.0, 90.0), (90.0, 180.0), (90.0, -90.0), (180.0, 0.0), (0.0, 90.0)]);
        let geom = WallGeom { tilt, azimuth, position: Some(p3(h(rng, -40, 40), h(rng, -40, 40), h(rng, 0, 40))), polygon: poly };
        let frame = match crate::oracle::geom::Frame::of(&geom) {
            Some(f) => f,
            None => return,
        };
        let gpts = global_points(&geom).unwrap();
        let mut m = Model::default();
        m.shades.push(Shade { id: uuid(rng), name: "s".into(), geometry: geom.clone() });
        let occ = guard(|| m.collect_occluders()).unwrap_or_default();
        obs.count(&format!("lattice-shape:{}", shape));
        obs.nontrivial(crate::rng::fnv64(format!("lattice{:?}", geom).as_bytes()));
        let (minx, maxx) = pts.iter().fold((f64::MAX, f64::MIN), |a, p| (a.0.min(p.0), a.1.max(p.0)));
        let (miny, maxy) = pts.iter().fold((f64::MAX, f64::MIN), |a, p| (a.0.min(p.1), a.1.max(p.1)));
        let last = pts[pts.len() - 1];
        for i in 0..32 {
            // level with a corner (every second ray: with the last listed corner), x on a quarter-metre lattice
            let corner = if i % 2 == 0 { last } else { pts[rng.usize(pts.len())] };
            let (x, y) = if rng.chance(0.8) { (minx - 1.0 + 0.25 * rng.below(((maxx - minx + 2.0) * 4.0) as u64 + 1) as f64, corner.1) } else { (corner.0, miny - 1.0 + 0.25 * rng.below(((maxy - miny + 2.0) * 4.0) as u64 + 1) as f64) };
            let dist = 0.5 * (1 + rng.below(20)) as f64;
            let side = if rng.chance(0.5) { 1.0 } else { -1.0 };
            let origin = frame.at(x, y, side * dist);
            let d = crate::oracle::geom::scale(frame.ez, -side);
            // axis poses: snap the direction to the exact axis vector it is meant to be
            let dir = [d[0].round(), d[1].round(), d[2].round()];
            let ray = Ray::new(p3(origin[0], origin[1], origin[2]), Vector3::new(dir[0] as f32, dir[1] as f32, dir[2] as f32));
            let o64: V3 = [ray.origin.x as f64, ray.origin.y as f64, ray.origin.z as f64];
            let d64: V3 = unit([ray.dir.x as f64, ray.dir.y as f64, ray.dir.z as f64]);
            obs.eval();
            let want = ray_polygon(o64, d64, &gpts);
            if want == Hit::Ambiguous {
                obs.ambiguous("crossing within 1 mm of the outline / origin on the plane / grazing");
                continue;
            }
            obs.count("lattice:crossing-level-with-a-corner");
            if corner == last && last.1 > miny && last.1 < maxy {
                obs.count("lattice:level-with-the-last-listed-corner-which-is-not-extreme");
            }
            obs.count(if want == Hit::Yes { "lattice:hit" } else { "lattice:miss" });
            let got_geom = match guard(|| geom.intersects(&ray).is_some()) {
                Ok(g) => g,
                Err(p) => {
                    obs.panic_violation(&p, json!({"where": "WallGeom::intersects", "geometry": format!("{:?}", geom)}));
                    return;
                }
            };
            let got_occ = occ.first().map(|o| (&o).intersects(&ray).is_some());
            for (name, got) in [("WallGeom::intersects", Some(got_geom)), ("Occluder::intersects", got_occ)] {
                if let Some(g) = got {
                    if g != (want == Hit::Yes) {
                        obs.violation(
                            &format!("ray-polygon:{}:crossing-level-with-a-corner:{}", name, if want == Hit::Yes { "missed-hit" } else { "false-hit" }),
                            format!("{} says {} but in exact arithmetic the ray {} the {} polygon (tilt {}, azimuth {}); the crossing point is level with a corner of the outline and {:.3} m away from it", name, g, if want == Hit::Yes { "hits" } else { "misses" }, shape, geom.tilt, geom.azimuth, ((x - corner.0).powi(2) + (y - corner.1).powi(2)).sqrt()),
                            json!({"geometry": format!("{:?}", geom), "ray": format!("{:?}", ray), "local_crossing": [x, y], "case": case.index}),
                        );
                        return;
                    }
                }
            }
        }
    }

    fn reveals(&self, rng: &mut Rng, case: &Case, obs: &mut Obs) {
        // one wall of any pose, one set-back window
        let (w, h) = (rng.dec(2.0, 10.0, 2), rng.dec(2.0, 6.0, 2));
        let geom = WallGeom {
            tilt: if rng.chance(0.6) { *rng.pick(&[90.0f32, 90.0, 90.0, 0.0, 30.0, 45.0, 60.0, 120.0, 180.0]) } else { rng.dec(0.0, 180.0, 1) as f32 },
            azimuth: rng.dec(-180.0, 180.0, 1) as f32,
            position: Some(p3(rng.dec(-30.0, 30.0, 2), rng.dec(-30.0, 30.0, 2), rng.dec(0.0, 20.0, 2))),
            polygon: vec![Point2::new(0.0, 0.0), Point2::new(w as f32, 0.0), Point2::new(w as f32, h as f32), Point2::new(0.0, h as f32)],
        };
        let mut m = Model::default();
        let sid = uuid(rng);
        m.spaces.push(bemodel::Space { id: sid, ..Default::default() });
        let wid = uuid(rng);
        m.walls.push(bemodel::Wall { id: wid, name: "w".into(), bounds: bemodel::BoundaryType::EXTERIOR, cons: bemodel::Uuid::nil(), space: sid, next_to: None, geometry: geom.clone() });
        let (ww, wh) = (rng.dec(0.3, w - 0.5, 2), rng.dec(0.3, h - 0.5, 2));
        let win = bemodel::Window {
            id: uuid(rng),
            name: "v".into(),
            cons: bemodel::Uuid::nil(),
            wall: wid,
            geometry: bemodel::WinGeom { position: Some(Point2::new(rng.dec(0.1, w - ww - 0.1, 2) as f32, rng.dec(0.1, h - wh - 0.1, 2) as f32)), height: wh as f32, width: ww as f32, setback: rng.dec(0.02, 1.0, 2) as f32 },
        };
        m.windows.push(win.clone());
        obs.eval();
        let occ = match guard(|| m.collect_occluders()) {
            Ok(o) => o,
            Err(p) => {
                obs.panic_violation(&p, json!({"where": "collect_occluders (reveals)"}));
                return;
            }
        };
        let want = reveal_quads(&geom, &win).unwrap_or_default();
        let got: Vec<Vec<V3>> = occ
            .iter()
            .filter(|o| o.linked_to_id == Some(win.id))
            .filter_map(|o| {
                let inv = o.trans_matrix?.inverse();
                Some(o.polygon.iter().map(|p| {
                    let g = inv * Point3::new(p.x, p.y, 0.0);
                    [g.x as f64, g.y as f64, g.z as f64]
                }).collect())
            })
            .collect();
        let class = match crate::oracle::mref::tilt_class(geom.tilt) {
            crate::oracle::mref::TiltC::Side => {
                if (geom.tilt - 90.0).abs() < 0.01 {
                    "vertical-wall"
                } else {
                    "leaning-wall"
                }
            }
            _ => "roof-or-floor",
        };
        obs.count(&format!("reveals:{}", class));
        obs.nontrivial(crate::rng::fnv64(format!("rev{:?}{:?}", geom, win.geometry).as_bytes()));
        let ctx = || json!({"wall_geometry": format!("{:?}", geom), "window": format!("{:?}", win.geometry), "expected_quads": want, "generated_quads": got, "case": case.index});
        if got.len() != 4 {
            obs.violation("reveals-count", format!("{} reveal surfaces for a window with setback {}", got.len(), win.geometry.setback), ctx());
            return;
        }
        let names = ["head", "left-jamb", "right-jamb", "sill"];
        for (i, q) in want.iter().enumerate() {
            let best = got.iter().map(|g| cyclic_match(q, g)).fold(f64::MAX, f64::min);
            let tol = 1e-3 + 2e-6 * (geom.position.unwrap().coords.norm() as f64);
            if best > tol {
                obs.violation(
                    &format!("reveal-misplaced:{}:{}", names[i], class),
                    format!("the {} reveal of a window on a {} (tilt {}) is {:.4} m away from the gap between wall plane and window plane", names[i], class, geom.tilt, best),
                    ctx(),
                );
                return;
            }
        }
        if obs.samples.len() < 3 {
            obs.sample(json!({"wall_tilt": geom.tilt, "wall_azimuth": geom.azimuth, "setback": win.geometry.setback, "reveal_quads_matched": 4}));
        }
    }
}

impl Property for C13 {
    fn id(&self) -> &'static str {
        "C13"
    }
    fn rule(&self) -> String {
        "(1) obstacle sets of size 0..200 in 6 families (random boxes, duplicates, one common centre, a common-centre group larger than the leaf among other elements, collinear centres, flat boxes) x leaf sizes 1/2/4/30 x 64 rays (random, axis-parallel, aimed at centres, from inside, aimed to miss): BVH::build(..).intersects == any(element.intersects), build bounded by 10 n^2 + 1000 aabb() calls of an instrumented element and by the node-bound hook; the same over the real occluders of generated models; (2) simple polygons with 3..12 corners (convex, star-shaped, L, U; either winding) in random poses x 24 rays: WallGeom::intersects and Occluder::intersects == exact f64 winding-number test; the same for lattice polygons (gable, L, U, trapezoid, stepped; half-metre coordinates, any start corner, either winding) in axis poses with rays along the normal whose crossing point is exactly level with a corner of the outline (half of them with the last listed corner) yet >= 1 mm from the outline; (3) WallGeom::aabb contains all corners; (4) windows with setback in (0,1] on walls of any pose: the four reveal occluders mapped back through their own matrices equal the gap quads as point sets; non-trivial = distinct set / pose".into()
    }
    fn assumptions(&self) -> Vec<String> {
        vec!["crossings within 1 mm of the outline, origins within 1 mm of the plane and grazing rays (|cos| < 1e-3) are ambiguous".into()]
    }
    fn workloads(&self, tier: Tier) -> Vec<(String, u64)> {
        vec![
            ("bvh-boxes".into(), tier.pick(8000, 200_000)),
            ("bvh-occluders".into(), tier.pick(450, 8000)),
            ("polygon-exact".into(), tier.pick(4500, 150_000)),
            ("polygon-lattice".into(), tier.pick(1800, 60_000)),
            ("reveals".into(), tier.pick(1500, 40_000)),
        ]
    }
    fn required(&self, _tier: Tier) -> Vec<(String, u64)> {
        vec![
            ("set_size:0".into(), 20),
            ("set_size:1".into(), 20),
            ("set_size:<=leaf".into(), 100),
            ("set_size:>leaf".into(), 500),
            ("family:one-common-centre".into(), 50),
            ("family:common-centre-group-among-others".into(), 50),
            ("family:duplicates".into(), 50),
            ("rays_blocked".into(), 5000),
            ("rays_free".into(), 5000),
            ("exact:hit".into(), 3000),
            ("exact:miss".into(), 3000),
            ("lattice:hit".into(), 2000),
            ("lattice:miss".into(), 2000),
            ("lattice:level-with-the-last-listed-corner-which-is-not-extreme".into(), 1000),
            ("reveals:vertical-wall".into(), 50),
            ("reveals:roof-or-floor".into(), 50),
            ("reveals:leaning-wall".into(), 50),
            ("aabb_checked".into(), 1000),
            ("occluder_sets:>leaf".into(), 50),
        ]
    }
    fn run_case(&self, case: &Case, obs: &mut Obs) {
        let mut rng = case.rng();
        match case.kind {
            "bvh-boxes" => self.bvh_boxes(&mut rng, case, obs),
            "bvh-occluders" => self.bvh_occluders(&mut rng, case, obs),
            "polygon-exact" => self.polygon_exact(&mut rng, case, obs),
            "polygon-lattice" => self.polygon_lattice(&mut rng, case, obs),
            _ => self.reveals(&mut rng, case, obs),
        }
    }
    fn extra_evidence(&self, agg: &Obs) -> Value {
        json!({"max_aabb_calls_in_one_build": agg.counters.get("max:aabb_calls_per_build")})
    }
}
