//! C02 Converted models are referentially closed, or conversion fails with an error

use bemodel::Model;
use serde_json::json;

use crate::convert::{convert_ctehexml_fast, project_texts, real_project_files, Conv};
use crate::core::{Case, Obs, Property, Tier};
use crate::gen::bdl::{gen_building, oddify_names, print_blocks, BuildCfg, Layout};
use crate::oracle::bdlread::{bdl_span, read_blocks, RBlock};
use crate::oracle::links::{broken_links, id_problems, Link};
use crate::panicx::guard;
use crate::rng::Rng;

pub struct C02;

const DEF_TYPES: [&str; 18] = [
    "CONSTRUCTION", "LAYERS", "MATERIAL", "GLASS-TYPE", "NAME-FRAME", "GAP", "POLYGON", "FLOOR", "SPACE", "SPACE-CONDITIONS", "SYSTEM-CONDITIONS", "SCHEDULE-PD", "WEEK-SCHEDULE-PD", "DAY-SCHEDULE-PD", "EXTERIOR-WALL", "INTERIOR-WALL", "UNDERGROUND-WALL", "ROOF",
];

fn closure_problems(m: &Model) -> Vec<String> {
    let mut v: Vec<String> = broken_links(m).into_iter().filter(|b| !matches!(b.link, Link::OverrideWall | Link::OverrideWindow)).map(|b| format!("{:?}{}", b.link, if b.target.is_nil() { "(nil id)" } else { "(dangling id)" })).collect();
    v.extend(id_problems(m).into_iter().map(|(k, _)| k));
    v.sort();
    v.dedup();
    v
}

impl C02 {
    /// conversion outcome of a text; records violations; returns the class
    fn outcome(&self, is_xml: bool, text: &str, origin: &str, what: &str, obs: &mut Obs) -> &'static str {
        obs.eval();
        let r = crate::convert::convert_text_routed(is_xml, text);
        match r {
            Conv::Err(_) => "rejected",
            Conv::Panic(p) => {
                obs.panic_violation(&p, json!({"origin": origin, "edit": what}));
                "panic"
            }
            Conv::Ok(m) => {
                let probs = closure_problems(&m);
                if !probs.is_empty() {
                    for p in probs.iter().take(3) {
                        obs.violation(&format!("model-not-closed:{}", p), format!("{} ({}): conversion yields a model with {}", origin, what, p), json!({"origin": origin, "edit": what, "all_problems": probs}));
                    }
                    return "not-closed";
                }
                // "never turned into a model with missing links": a partition whose source block names its neighbour keeps it
                let bdl_text: String = if is_xml { bdl_span(text).map(|(a, b)| text[a..b].to_string()).unwrap_or_default() } else { text.to_string() };
                for b in read_blocks(&bdl_text).iter().filter(|b| b.btype == "INTERIOR-WALL") {
                    let named = b.text("NEXT-TO");
                    let adiabatic = b.raw("INT-WALL-TYPE").map_or(false, |t| t.trim() == "ADIABATIC");
                    if let (Some(neighbour), false) = (named, adiabatic) {
                        if let Some(w) = m.walls.iter().find(|w| w.name == b.name) {
                            obs.count("partitions_with_named_neighbour_checked");
                            if w.bounds == bemodel::BoundaryType::INTERIOR && w.next_to.is_none() {
                                obs.violation(
                                    "source-reference-dropped:WallNext",
                                    format!("{} ({}): partition {:?} names the adjacent space {:?} in the project, the model holds no adjacent space for it", origin, what, b.name, neighbour),
                                    json!({"origin": origin, "edit": what, "wall": b.name, "next_to_in_source": neighbour}),
                                );
                                return "not-closed";
                            }
                        }
                    }
                }
                // cross-check with the library's own checker
                match guard(|| bemodel::check(&m)) {
                    Ok(w) => {
                        let elem: Vec<String> = w.iter().filter(|x| x.id.is_some()).map(|x| x.msg.clone()).collect();
                        // negative bridge lengths are data, not links
                        let elem: Vec<String> = elem.into_iter().filter(|m| !m.contains("longitud negativa")).collect();
                        if !elem.is_empty() {
                            obs.violation("checker-reports-on-converted-model", format!("{} ({}): the model checker reports {} problems on a converted model, e.g. {}", origin, what, elem.len(), elem[0]), json!({"origin": origin, "edit": what}));
                            return "not-closed";
                        }
                    }
                    Err(p) => obs.panic_violation(&p, json!({"where": "bemodel::check", "origin": origin})),
                }
                "closed"
            }
        }
    }

    fn edited(&self, rng: &mut Rng, bdl: &str) -> Option<(String, String)> {
        let blocks = read_blocks(bdl);
        let cands: Vec<&RBlock> = blocks.iter().filter(|b| DEF_TYPES.contains(&b.btype.as_str())).collect();
        if cands.is_empty() {
            return None;
        }
        // prefer kinds evenly: pick a type first
        let mut types: Vec<&str> = cands.iter().map(|b| b.btype.as_str()).collect();
        types.sort();
        types.dedup();
        let ty = types[rng.usize(types.len())];
        let of: Vec<&&RBlock> = cands.iter().filter(|b| b.btype == ty).collect();
        let b = of[rng.usize(of.len())];
        let mut lines: Vec<String> = bdl.lines().map(|l| l.to_string()).collect();
        let is_wall = matches!(ty, "EXTERIOR-WALL" | "INTERIOR-WALL" | "UNDERGROUND-WALL" | "ROOF");
        let mode = if is_wall { rng.usize(2) } else { rng.usize(3) };
        let what;
        if mode == 2 {
            // every reference to this definition now names an existing definition of ANOTHER kind (a week schedule where a
            // day schedule belongs, a glass where a frame belongs, ...): the name exists in the file, the thing referred to does not
            let sibling: &[&str] = match ty {
                "DAY-SCHEDULE-PD" => &["WEEK-SCHEDULE-PD", "SCHEDULE-PD"],
                "WEEK-SCHEDULE-PD" => &["DAY-SCHEDULE-PD", "SCHEDULE-PD"],
                "SCHEDULE-PD" => &["WEEK-SCHEDULE-PD", "DAY-SCHEDULE-PD"],
                "GLASS-TYPE" => &["NAME-FRAME", "GAP"],
                "NAME-FRAME" => &["GLASS-TYPE", "GAP"],
                "GAP" => &["CONSTRUCTION", "LAYERS"],
                "MATERIAL" => &["LAYERS", "GLASS-TYPE"],
                "LAYERS" => &["MATERIAL", "GAP"],
                "CONSTRUCTION" => &["GAP", "LAYERS"],
                "SPACE-CONDITIONS" => &["SYSTEM-CONDITIONS", "SCHEDULE-PD"],
                "SYSTEM-CONDITIONS" => &["SPACE-CONDITIONS", "SCHEDULE-PD"],
                "SPACE" => &["FLOOR", "POLYGON"],
                "POLYGON" => &["SPACE", "FLOOR"],
                _ => &["SPACE", "MATERIAL"],
            };
            let others: Vec<&RBlock> = blocks.iter().filter(|c| sibling.contains(&c.btype.as_str()) && c.name != b.name).collect();
            if others.is_empty() {
                return None;
            }
            let c = others[rng.usize(others.len())];
            let from = format!("\"{}\"", b.name);
            let to = format!("\"{}\"", c.name);
            let mut n = 0;
            for (i, l) in lines.iter_mut().enumerate() {
                // headers ("name" = TYPE) stay; references are quoted names on attribute lines
                let is_header = i == b.lines.0 || (l.contains('=') && l.trim_start().starts_with('"') && !l.contains('('));
                if !is_header && l.contains(&from) {
                    *l = l.replace(&from, &to);
                    n += 1;
                }
            }
            if n == 0 {
                return None;
            }
            what = format!("retarget {} {:?} -> {} {:?}", ty, b.name, c.btype, c.name);
        } else if mode == 0 {
            // remove the definition
            lines.drain(b.lines.0..=b.lines.1.min(lines.len() - 1));
            what = format!("remove {} {:?}", ty, b.name);
        } else if is_wall && rng.chance(0.5) {
            // put a ground-contact floor block (never translated into a wall) between the wall and its children
            let at = b.lines.1 + 1;
            lines.insert(at, "\"SUELO_TERRENO_X\" = UNDERGROUND-FLOOR\n   CONSTRUCTION = \"Ninguno\"\n   ..".to_string());
            what = format!("insert UNDERGROUND-FLOOR after {} {:?}", ty, b.name);
        } else {
            // rename the definition (its header line)
            let h = &lines[b.lines.0];
            let p = h.find('"')?;
            let q = h[p + 1..].find('"')? + p + 1;
            lines[b.lines.0] = format!("{}\"{}_renombrado\"{}", &h[..p], &h[p + 1..q], &h[q + 1..]);
            what = format!("rename {} {:?}", ty, b.name);
        }
        Some((lines.join("\n"), what))
    }
}

impl Property for C02 {
    fn id(&self) -> &'static str {
        "C02"
    }
    fn rule(&self) -> String {
        "(a) every shipped project (12 .ctehexml, 56 .cte) converted as parse_with_catalog + try_from does; (b) generated projects in random layouts, a third with definitions and their references re-spelled with doubled blanks, blanks at the ends, brackets or very long names, half with generated system sections; (c) each of them with one definition that something may refer to renamed, removed, or its references re-targeted to an existing definition of another kind (week schedule for day schedule, glass for frame, ...) in the text (CONSTRUCTION, LAYERS, MATERIAL, GLASS-TYPE, NAME-FRAME, GAP, POLYGON, FLOOR, SPACE, SPACE-/SYSTEM-CONDITIONS, yearly/weekly/daily schedule, wall blocks with children, an UNDERGROUND-FLOOR slipped between a wall and its windows); every Ok(model) must pass the harness's own closure walk (14 link kinds, unique non-nil ids) and bemodel::check, and every partition whose source block names an adjacent space must hold one; a panic is neither a model nor an error; non-trivial = distinct (project, edit)".into()
    }
    fn assumptions(&self) -> Vec<String> {
        vec!["an Ok result with a closed model is legal after an edit: the catalogue may supply the name, BDL re-parents children positionally, and a space whose SPACE-/SYSTEM-CONDITIONS name no block gets no loads / thermostat (legacy LIDER files have no such blocks at all); a partition that names its neighbour in the project must keep one".into()]
    }
    fn workloads(&self, tier: Tier) -> Vec<(String, u64)> {
        vec![("real".into(), real_project_files().len() as u64), ("generated".into(), tier.pick(450, 3000)), ("real-edited".into(), tier.pick(1000, 12_000)), ("generated-edited".into(), tier.pick(1000, 12_000))]
    }
    fn required(&self, _tier: Tier) -> Vec<(String, u64)> {
        vec![("class:closed".into(), 300), ("class:rejected".into(), 100), ("edits:remove".into(), 150), ("edits:rename".into(), 100), ("edits:insert".into(), 10), ("edits:retarget".into(), 60), ("generated:closed".into(), 60), ("generated:names-differing-only-in-case".into(), 20), ("partitions_with_named_neighbour_checked".into(), 500), ("generated-odd-names:closed".into(), 5), ("generated-odd-names:rejected".into(), 5)]
    }
    fn time_cap_s(&self, tier: Tier) -> u64 {
        tier.pick(170, 2400)
    }
    fn run_case(&self, case: &Case, obs: &mut Obs) {
        let mut rng = case.rng();
        let files = real_project_files();
        match case.kind {
            "real" => {
                let f = &files[case.index as usize];
                let (is_xml, full, _) = project_texts(f);
                let name = f.file_name().unwrap().to_string_lossy().to_string();
                let c = self.outcome(is_xml, &full, &name, "as shipped", obs);
                obs.count(&format!("class:{}", c));
                obs.count(&format!("real:{}", c));
                obs.nontrivial_str(&name);
                obs.sample(json!({"project": name, "outcome": c}));
            }
            "generated" => {
                let mut b = gen_building(&mut rng, &BuildCfg::full());
                // every fifth project: two layer sets whose names differ only in letter case, used in turn
                if case.index % 5 == 4 && crate::gen::bdl::case_twin_layers(&mut b).is_some() {
                    obs.count("generated:names-differing-only-in-case");
                }
                let lay = Layout::random(&mut rng);
                let mut blocks = b.blocks();
                // a third of the projects spell some definitions (and their references, identically) with doubled
                // blanks, blanks at the ends, brackets or very long names; half carry generated system sections
                let odd = if case.index % 3 == 2 { { let share = *rng.pick(&[0.02, 0.04, 0.08]); oddify_names(&mut rng, &mut blocks, &DEF_TYPES, share) } } else { vec![] };
                let bdl = print_blocks(&mut rng, &blocks, &lay);
                let (extra, sys) = if case.index % 2 == 1 {
                    let (e, s, _) = crate::gen::sysxml::gen_systems(&mut rng, &b.space_names(), case.index % 10 == 9);
                    (e, s)
                } else {
                    (String::new(), String::new())
                };
                let full = b.ctehexml_ext(&bdl, &extra, &sys);
                let origin = format!("generated#{}", case.index);
                let what = if odd.is_empty() { "as generated".to_string() } else { format!("names re-spelled: {}", odd.iter().map(|o| format!("{} {:?}", o.0, o.2)).collect::<Vec<_>>().join(", ").chars().take(300).collect::<String>()) };
                let c = self.outcome(true, &full, &origin, &what, obs);
                obs.count(&format!("class:{}", c));
                obs.count(&format!("generated{}:{}", if odd.is_empty() { "" } else { "-odd-names" }, c));
                for o in &odd {
                    obs.count(&format!("odd-name:{}", o.0));
                }
                obs.nontrivial(crate::rng::fnv64(full.as_bytes()));
                // a rejection is a legal outcome (the floor on generated:closed guards the generator)
                if c == "rejected" && !odd.is_empty() {
                    if let Conv::Err(e) = convert_ctehexml_fast(&full) {
                        obs.count(&format!("odd-names-rejected-with:{}", e.chars().filter(|c| !c.is_ascii_digit()).take(36).collect::<String>()));
                    }
                }
            }
            _ => {
                let (is_xml, full, bdl, origin) = if case.kind == "real-edited" {
                    let f = &files[rng.usize(files.len())];
                    let (x, full, bdl) = project_texts(f);
                    (x, full, bdl, f.file_name().unwrap().to_string_lossy().to_string())
                } else {
                    let b = gen_building(&mut rng, &BuildCfg::full());
                    let lay = Layout::hulc();
                    let bdl = print_blocks(&mut rng, &b.blocks(), &lay);
                    (true, b.ctehexml(&bdl, ""), bdl, format!("generated({})", case.index))
                };
                let (bdl2, what) = match self.edited(&mut rng, &bdl) {
                    Some(x) => x,
                    None => return,
                };
                let full2 = if is_xml {
                    match bdl_span(&full) {
                        Some((a, b)) => format!("{}{}{}", &full[..a], bdl2, &full[b..]),
                        None => return,
                    }
                } else {
                    bdl2
                };
                let c = self.outcome(is_xml, &full2, &origin, &what, obs);
                obs.count(&format!("class:{}", c));
                obs.count(&format!("edits:{}", what.split(' ').next().unwrap_or("")));
                obs.count(&format!("edit-target:{}", what.split(' ').nth(1).unwrap_or("")));
                obs.nontrivial(crate::rng::fnv64(format!("{}{}", origin, what).as_bytes()));
                if obs.samples.len() < 4 {
                    obs.sample(json!({"project": origin, "edit": what, "outcome": c}));
                }
            }
        }
    }
}
