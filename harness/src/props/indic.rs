//! C08 (K), C09 (n50), C10 (q_sol;jul), C11 (reference area, volumes, compactness, envelope, classifiers)

use std::collections::BTreeMap;

use bemodel::energy::EnergyIndicators;
use bemodel::{BoundaryType, Model, ThermalBridgeKind, Uuid};
use serde_json::{json, Value};

use crate::convert::{convert_path, real_project_files, Conv};
use crate::core::{Case, Obs, Property, Tier};
use crate::gen::model::{gen_model, load_model, uuid, zone, GenCfg, ZONES};
use crate::oracle::mref::{r2, sector, sector_boundary_distance, tilt_boundary_distance, tilt_class, MRef, TiltC};
use crate::panicx::guard;
use crate::rng::Rng;

fn close(a: f64, b: f64, rel: f64, abs: f64) -> bool {
    if !a.is_finite() || !b.is_finite() {
        return false;
    }
    (a - b).abs() <= abs + rel * a.abs().max(b.abs())
}

fn indicators(m: &Model, obs: &mut Obs, origin: &str) -> Option<EnergyIndicators> {
    match guard(|| m.energy_indicators()) {
        Ok(i) => Some(i),
        Err(p) => {
            obs.panic_violation(&p, json!({"where": "Model::energy_indicators", "origin": origin}));
            None
        }
    }
}

/// real models: the 7 shipped JSON files followed by the 68 project files
fn real_count() -> u64 {
    (crate::corpus::model_json_files().len() + real_project_files().len()) as u64
}
fn real_model(index: u64, obs: &mut Obs) -> Option<(String, Model)> {
    let js = crate::corpus::model_json_files();
    if (index as usize) < js.len() {
        let f = &js[index as usize];
        return load_model(f).map(|m| (f.file_name().unwrap().to_string_lossy().to_string(), m));
    }
    let files = real_project_files();
    let f = &files[index as usize - js.len()];
    match convert_path(f) {
        Conv::Ok(m) => Some((f.file_name().unwrap().to_string_lossy().to_string(), m)),
        Conv::Err(_) => {
            obs.count("real_project_rejected_by_converter");
            None
        }
        Conv::Panic(_) => {
            obs.count("real_project_converter_panic(C02/C19 domain)");
            None
        }
    }
}

/// generated model with windows that may cover their whole wall (curtain walls) and spaces that own no wall
fn gen_indic_model(rng: &mut Rng) -> Model {
    let mut cfg = GenCfg::small();
    cfg.p_window = 0.5;
    cfg.shades = (0, 1);
    let mut m = gen_model(rng, &cfg).model;
    // fully glazed walls: one window as large as the wall (net opaque area 0)
    let n = m.walls.len();
    for i in 0..n {
        if m.walls[i].bounds == BoundaryType::EXTERIOR && tilt_class(m.walls[i].geometry.tilt) == TiltC::Side && rng.chance(0.04) {
            let wid = m.walls[i].id;
            m.windows.retain(|w| w.wall != wid);
            let (w, h) = (m.walls[i].geometry.polygon[1].x, m.walls[i].geometry.polygon[2].y);
            let cons = if m.cons.wincons.is_empty() { Uuid::nil() } else { m.cons.wincons[rng.usize(m.cons.wincons.len())].id };
            m.windows.push(bemodel::Window {
                id: uuid(rng),
                name: format!("{}_curtain", m.walls[i].name),
                cons,
                wall: wid,
                geometry: bemodel::WinGeom { position: Some(bemodel::Point2::new(0.0, 0.0)), height: h, width: w, setback: 0.0 },
            });
        }
    }
    // some windows lose their construction (defaults must apply), some sit on interior/adiabatic walls
    for w in m.windows.iter_mut() {
        if rng.chance(0.08) {
            w.cons = if rng.chance(0.5) { Uuid::nil() } else { uuid(rng) };
        }
    }
    // window constructions that exist but whose glazing or frame does not resolve (their own F_f and shading factor still apply)
    for c in m.cons.wincons.iter_mut() {
        if rng.chance(0.08) {
            c.glass = if rng.chance(0.5) { Uuid::nil() } else { uuid(rng) };
        }
        if rng.chance(0.08) {
            c.frame = if rng.chance(0.5) { Uuid::nil() } else { uuid(rng) };
        }
    }
    // same surfaces, outlines with a redundant vertex or another start corner
    crate::gen::model::vary_outlines(rng, &mut m, 0.1);
    // stale adjacent-space references on elements that are not partitions (left over when a partition becomes a facade)
    let space_ids: Vec<Uuid> = m.spaces.iter().map(|s| s.id).collect();
    if !space_ids.is_empty() {
        for w in m.walls.iter_mut() {
            if w.bounds != BoundaryType::INTERIOR && w.next_to.is_none() && rng.chance(0.05) {
                w.next_to = Some(space_ids[rng.usize(space_ids.len())]);
            }
        }
    }
    m
}

// =======================================================================================
// C08

pub struct C08;

struct KRef {
    cat: BTreeMap<&'static str, (f64, f64, f64, f64, u32)>, // a, au, umin, umax, n
    tb: BTreeMap<&'static str, (f64, f64)>,
}

fn tb_name(k: ThermalBridgeKind) -> &'static str {
    use ThermalBridgeKind::*;
    match k {
        ROOF => "roof",
        BALCONY => "balcony",
        CORNER => "corner",
        INTERMEDIATEFLOOR => "intermediate_floor",
        INTERNALWALL => "internal_wall",
        GROUNDFLOOR => "ground_floor",
        PILLAR => "pillar",
        WINDOW => "window",
        GENERIC => "generic",
    }
}

fn k_reference(m: &Model, ind: &EnergyIndicators) -> KRef {
    let r = MRef::new(m);
    let mut cat: BTreeMap<&'static str, (f64, f64, f64, f64, u32)> = BTreeMap::new();
    for c in ["walls", "roofs", "floors", "ground", "windows"] {
        cat.insert(c, (0.0, 0.0, f64::MAX, f64::MIN, 0));
    }
    let mut add = |c: &'static str, a: f64, u: f64| {
        let e = cat.get_mut(c).unwrap();
        e.0 += a;
        e.1 += a * u;
        e.2 = e.2.min(u);
        e.3 = e.3.max(u);
        e.4 += 1;
    };
    for w in &m.walls {
        if !(r.is_tenv(w) && matches!(w.bounds, BoundaryType::EXTERIOR | BoundaryType::GROUND)) {
            continue;
        }
        let mu = r.mult(w.space);
        let wp = ind.props.walls.get(&w.id);
        let u = m
            .overrides
            .walls
            .get(&w.id)
            .and_then(|o| o.u_value)
            .or(wp.and_then(|p| p.u_value))
            .map(|v| v as f64)
            .unwrap_or(5.7);
        // net area as reported (judged on its own below), so that a x.xx5 rounding tie cannot leak into K
        let a_net = wp.map(|p| p.area_net as f64).unwrap_or_else(|| r.wall_net(w));
        let c = if w.bounds == BoundaryType::GROUND {
            "ground"
        } else {
            match tilt_class(w.geometry.tilt) {
                TiltC::Top => "roofs",
                TiltC::Bottom => "floors",
                TiltC::Side => "walls",
            }
        };
        add(c, mu * a_net, u);
        for win in r.windows_of(w.id) {
            let wu = m
                .overrides
                .windows
                .get(&win.id)
                .and_then(|o| o.u_value)
                .or(ind.props.windows.get(&win.id).and_then(|p| p.u_value))
                .map(|v| v as f64)
                .unwrap_or(5.7);
            add("windows", mu * r.win_area(win), wu);
        }
    }
    let mut tb: BTreeMap<&'static str, (f64, f64)> = BTreeMap::new();
    for t in &m.thermal_bridges {
        if t.l < 0.0 {
            continue;
        }
        let e = tb.entry(tb_name(t.kind)).or_insert((0.0, 0.0));
        e.0 += t.l as f64;
        e.1 += t.l as f64 * t.psi as f64;
    }
    KRef { cat, tb }
}

fn check_k(m: &Model, ind: &EnergyIndicators, origin: &str, obs: &mut Obs) {
    let r = MRef::new(m);
    let k = &ind.K_data;
    let kr = k_reference(m, ind);
    let ctx = || json!({"origin": origin, "K_data": format!("{:?}", k), "reference": format!("{:?} {:?}", kr.cat, kr.tb)});
    // net areas reported per element
    for w in &m.walls {
        if let Some(wp) = ind.props.walls.get(&w.id) {
            let net = r.wall_area(w) - r.windows_of(w.id).map(|x| r.win_area(x)).sum::<f64>();
            if !close(wp.area_net as f64, net, 1e-5, 0.0056) {
                obs.violation("wall-net-area", format!("{} {}: area_net {} but gross - windows = {:.4}", origin, w.name, wp.area_net, net), ctx());
            }
            if !close(wp.area_gross as f64, r.wall_area(w), 1e-5, 1e-3) {
                obs.violation("wall-gross-area", format!("{} {}: area_gross {} but polygon area {:.4}", origin, w.name, wp.area_gross, r.wall_area(w)), ctx());
            }
        }
    }
    let impl_cat = [("walls", &k.walls), ("roofs", &k.roofs), ("floors", &k.floors), ("ground", &k.ground), ("windows", &k.windows)];
    let (mut a_op, mut au_op, mut a_tot, mut au_tot) = (0.0, 0.0, 0.0, 0.0);
    for (name, ic) in impl_cat {
        let (a, au, umin, umax, n) = kr.cat[name];
        if !close(ic.a as f64, a, 2e-4, 2e-3) || !close(ic.au as f64, au, 2e-4, 2e-3) {
            obs.violation(&format!("k-category:{}", name), format!("{}: K_data.{} a={} au={} but reference a={:.4} au={:.4}", origin, name, ic.a, ic.au, a, au), ctx());
        }
        if n > 0 {
            obs.count(&format!("cat:{}", name));
            let ok = ic.u_min.map_or(false, |v| close(v as f64, umin, 1e-5, 1e-5)) && ic.u_max.map_or(false, |v| close(v as f64, umax, 1e-5, 1e-5));
            if !ok {
                obs.violation(&format!("k-category-minmax:{}", name), format!("{}: {} u_min={:?} u_max={:?}, reference {:.4}/{:.4}", origin, name, ic.u_min, ic.u_max, umin, umax), ctx());
            }
        } else if ic.u_min.is_some() || ic.u_max.is_some() || ic.u_mean.is_some() {
            obs.violation(&format!("k-category-empty:{}", name), format!("{}: {} reports U statistics without elements", origin, name), ctx());
        }
        if let Some(mean) = ic.u_mean {
            let (lo, hi) = (ic.u_min.unwrap_or(f32::NAN) as f64, ic.u_max.unwrap_or(f32::NAN) as f64);
            if !(mean as f64 >= lo - 1e-4 && mean as f64 <= hi + 1e-4) || !close(mean as f64, ic.au as f64 / ic.a as f64, 1e-4, 1e-5) {
                obs.violation(&format!("k-category-mean:{}", name), format!("{}: {} u_mean={} not within [{},{}] or != au/a", origin, name, mean, lo, hi), ctx());
            }
        } else if a > 0.0011 {
            obs.violation(&format!("k-category-mean-missing:{}", name), format!("{}: {} has area {:.3} but no u_mean", origin, name, a), ctx());
        }
        a_tot += a;
        au_tot += au;
        if name != "windows" {
            a_op += a;
            au_op += au;
        }
    }
    let s = &k.summary;
    let t = &k.tbs;
    let impl_tb = [
        ("roof", &t.roof),
        ("balcony", &t.balcony),
        ("corner", &t.corner),
        ("intermediate_floor", &t.intermediate_floor),
        ("internal_wall", &t.internal_wall),
        ("ground_floor", &t.ground_floor),
        ("pillar", &t.pillar),
        ("window", &t.window),
        ("generic", &t.generic),
    ];
    let (mut l_tot, mut pl_tot) = (0.0, 0.0);
    for (name, it) in impl_tb {
        let (l, pl) = kr.tb.get(name).copied().unwrap_or((0.0, 0.0));
        if l > 0.0 {
            obs.count(&format!("tb:{}", name));
        }
        if !close(it.l as f64, l, 1e-4, 1e-3) || !close(it.psil as f64, pl, 1e-4, 1e-3) {
            obs.violation(&format!("k-bridge-kind:{}", name), format!("{}: bridges {} l={} psil={} but reference l={:.3} psil={:.3}", origin, name, it.l, it.psil, l, pl), ctx());
        }
        l_tot += l;
        pl_tot += pl;
    }
    let checks = [
        ("opaques_a", s.opaques_a as f64, a_op),
        ("opaques_au", s.opaques_au as f64, au_op),
        ("windows_a", s.windows_a as f64, kr.cat["windows"].0),
        ("windows_au", s.windows_au as f64, kr.cat["windows"].1),
        ("tbs_l", s.tbs_l as f64, l_tot),
        ("tbs_psil", s.tbs_psil as f64, pl_tot),
        ("a", s.a as f64, a_tot),
        ("au", s.au as f64, au_tot + pl_tot),
    ];
    for (name, got, want) in checks {
        if !close(got, want, 2e-4, 2e-3) {
            obs.violation(&format!("k-summary:{}", name), format!("{}: summary.{} = {} but reference {:.4}", origin, name, got, want), ctx());
        }
    }
    let k_ref = if a_tot < 0.01 { 0.0 } else { (au_tot + pl_tot) / a_tot };
    if a_tot > 0.0095 && a_tot < 0.0105 {
        obs.ambiguous("envelope area at the 0.01 m2 threshold");
    } else if !close(k.K as f64, k_ref, 2e-4, 1e-4) {
        obs.violation("k-value", format!("{}: K = {} but reference {:.5} (A={:.3}, AU+psiL={:.3})", origin, k.K, k_ref, a_tot, au_tot + pl_tot), ctx());
    }
    if obs.samples.len() < 2 {
        obs.sample(json!({"origin": origin, "K": k.K, "K_reference": k_ref, "A": a_tot, "AU": au_tot, "psiL": pl_tot, "envelope_elements": kr.cat.values().map(|c| c.4).sum::<u32>()}));
    }
}

/// consistent permutation / renaming / re-identification of a model
fn scramble(rng: &mut Rng, m: &Model) -> (Model, BTreeMap<Uuid, Uuid>) {
    let mut m = m.clone();
    let mut map: BTreeMap<Uuid, Uuid> = BTreeMap::new();
    let mut re = |rng: &mut Rng, id: Uuid| -> Uuid { *map.entry(id).or_insert_with(|| uuid(rng)) };
    for s in m.spaces.iter_mut() {
        s.id = re(rng, s.id);
        s.name = format!("renamed_{}", rng.next_u32());
    }
    for w in m.walls.iter_mut() {
        w.id = re(rng, w.id);
        w.space = re(rng, w.space);
        w.next_to = w.next_to.map(|n| re(rng, n));
        w.name = format!("renamed_{}", rng.next_u32());
    }
    for w in m.windows.iter_mut() {
        w.id = re(rng, w.id);
        w.wall = re(rng, w.wall);
        w.name = format!("renamed_{}", rng.next_u32());
    }
    for t in m.thermal_bridges.iter_mut() {
        t.id = re(rng, t.id);
        t.name = format!("renamed_{}", rng.next_u32());
    }
    let ow = std::mem::take(&mut m.overrides.walls);
    for (k, v) in ow {
        m.overrides.walls.insert(re(rng, k), v);
    }
    let ow = std::mem::take(&mut m.overrides.windows);
    for (k, v) in ow {
        m.overrides.windows.insert(re(rng, k), v);
    }
    rng.shuffle(&mut m.spaces);
    rng.shuffle(&mut m.walls);
    rng.shuffle(&mut m.windows);
    rng.shuffle(&mut m.thermal_bridges);
    (m, map)
}

/// A space whose U-relevant "first element found" is not unique: several own ground slabs, or
/// several ceiling candidates of different thickness (the library documents both simplifications)
fn first_found_is_ambiguous(m: &Model) -> bool {
    let r = MRef::new(m);
    for s in &m.spaces {
        let slabs = m.walls.iter().filter(|w| w.space == s.id && w.bounds == BoundaryType::GROUND && tilt_class(w.geometry.tilt) == TiltC::Bottom).count();
        if slabs > 1 {
            return true;
        }
        let mut th: Vec<f64> = m
            .walls
            .iter()
            .filter(|w| {
                let t = tilt_class(w.geometry.tilt);
                (t == TiltC::Top && w.space == s.id) || (t == TiltC::Bottom && w.next_to == Some(s.id))
            })
            .map(|w| r.thickness(w.cons))
            .collect();
        th.sort_by(|a, b| a.partial_cmp(b).unwrap());
        th.dedup();
        if th.len() > 1 {
            return true;
        }
    }
    false
}

impl Property for C08 {
    fn id(&self) -> &'static str {
        "C08"
    }
    fn rule(&self) -> String {
        "generated models (inside/outside spaces, all boundary kinds and tilts, multipliers, overrides on random subsets, 9 bridge kinds incl. negative and zero lengths, windows with/without resolvable construction, fully glazed walls) + shipped and converted real models; K_data is compared with the harness's own aggregation over its own envelope rule; metamorphic: reorder + rename + re-id leaves K unchanged; non-trivial = distinct model with at least 3 envelope elements".into()
    }
    fn assumptions(&self) -> Vec<String> {
        vec![
            "per-element U-values are taken as reported in props (they are judged by C06/C07)".into(),
            "net areas are taken as reported after being checked against gross - windows within the 2-decimal rounding".into(),
        ]
    }
    fn workloads(&self, tier: Tier) -> Vec<(String, u64)> {
        vec![("real".into(), real_count()), ("generated".into(), tier.pick(2000, 60_000)), ("permuted".into(), tier.pick(750, 20_000))]
    }
    fn required(&self, tier: Tier) -> Vec<(String, u64)> {
        let f = tier.pick(50, 1000);
        let mut v: Vec<(String, u64)> = ["walls", "roofs", "floors", "ground", "windows"].iter().map(|c| (format!("cat:{}", c), f)).collect();
        v.push(("tb:window".into(), f));
        v.push(("models_with_override".into(), 30));
        v.push(("models_with_default_u".into(), 30));
        v.push(("models_with_fully_glazed_wall".into(), 10));
        v
    }
    fn run_case(&self, case: &Case, obs: &mut Obs) {
        let mut rng = case.rng();
        let (origin, m) = match case.kind {
            "real" => match real_model(case.index, obs) {
                Some(x) => x,
                None => return,
            },
            _ => (format!("{}#{}", case.kind, case.index), gen_indic_model(&mut rng)),
        };
        obs.eval();
        let ind = match indicators(&m, obs, &origin) {
            Some(i) => i,
            None => return,
        };
        let r = MRef::new(&m);
        let n_env = m.walls.iter().filter(|w| r.is_tenv(w) && matches!(w.bounds, BoundaryType::EXTERIOR | BoundaryType::GROUND)).count();
        if n_env >= 3 {
            obs.nontrivial_str(&format!("{}{}{}", origin, ind.K_data.K, n_env));
        }
        if !m.overrides.walls.is_empty() || !m.overrides.windows.is_empty() {
            obs.count("models_with_override");
        }
        if m.windows.iter().any(|w| ind.props.windows.get(&w.id).map_or(false, |p| p.u_value.is_none() && p.is_tenv)) {
            obs.count("models_with_default_u");
        }
        if m.walls.iter().any(|w| ind.props.walls.get(&w.id).map_or(false, |p| p.is_tenv && p.area_net.abs() < 0.005 && p.area_gross > 1.0)) {
            obs.count("models_with_fully_glazed_wall");
        }
        check_k(&m, &ind, &origin, obs);
        if case.kind == "permuted" {
            let (m2, idmap) = scramble(&mut rng, &m);
            obs.eval();
            if let Some(ind2) = indicators(&m2, obs, &origin) {
                let (a, b) = (&ind.K_data, &ind2.K_data);
                // did any per-element U change? (then the order dependence lies in the element U-values)
                let element_u_changed = m.walls.iter().any(|w| {
                    let u1 = ind.props.walls.get(&w.id).and_then(|p| p.u_value);
                    let u2 = idmap.get(&w.id).and_then(|n| ind2.props.walls.get(n)).and_then(|p| p.u_value);
                    u1 != u2
                });
                let documented = element_u_changed && first_found_is_ambiguous(&m);
                if documented {
                    obs.count("permuted_models_with_several_slabs_or_ceilings_per_space");
                }
                let pairs = [
                    ("K", a.K, b.K),
                    ("summary.a", a.summary.a, b.summary.a),
                    ("summary.au", a.summary.au, b.summary.au),
                    ("walls.au", a.walls.au, b.walls.au),
                    ("roofs.au", a.roofs.au, b.roofs.au),
                    ("floors.au", a.floors.au, b.floors.au),
                    ("ground.au", a.ground.au, b.ground.au),
                    ("windows.au", a.windows.au, b.windows.au),
                    ("tbs_psil", a.summary.tbs_psil, b.summary.tbs_psil),
                ];
                for (name, x, y) in pairs {
                    if !close(x as f64, y as f64, 2e-4, 1e-3) {
                        obs.violation(
                            &(if documented {
                                "k-not-invariant-under-reordering:element-U-taken-from-first-listed-slab-or-ceiling-of-a-space".to_string()
                            } else {
                                format!("k-not-invariant-under-reordering:{}", name)
                            }),
                            format!("{}: {} = {} before and {} after reordering/renaming/re-identifying the elements", origin, name, x, y),
                            json!({"before": format!("{:?}", a), "after": format!("{:?}", b)}),
                        );
                    }
                }
            }
        }
    }
}

// =======================================================================================
// C09

pub struct C09;

fn check_n50(m: &Model, ind: &EnergyIndicators, origin: &str, obs: &mut Obs) {
    let r = MRef::new(m);
    let n = &ind.n50_data;
    let ctx = || json!({"origin": origin, "n50_data": format!("{:?}", n), "meta": format!("{:?}", m.meta)});
    let (mut ao, mut ah, mut chah) = (0.0, 0.0, 0.0);
    for w in &m.walls {
        if !(r.is_tenv(w) && w.bounds == BoundaryType::EXTERIOR) {
            continue;
        }
        let mu = r.mult(w.space);
        let a_net = ind.props.walls.get(&w.id).map(|p| p.area_net as f64).unwrap_or_else(|| r.wall_net(w));
        ao += mu * a_net;
        for win in r.windows_of(w.id) {
            let a = r.win_area(win) * mu;
            let ch = r.wincons.get(&win.cons).map(|i| m.cons.wincons[*i].c_100 as f64).unwrap_or(100.0);
            ah += a;
            chah += a * ch;
        }
    }
    let co = if m.meta.is_new_building { 16.0 } else { 29.0 };
    // V: net internal volume of the envelope, own computation; the reported one must agree within its rounding
    let v_own = r.vol_net();
    if !close(n.vol as f64, v_own, 1e-5, 0.0056) {
        obs.violation("n50-volume", format!("{}: n50_data.vol = {} but net envelope volume is {:.4}", origin, n.vol, v_own), ctx());
        return;
    }
    let v = n.vol as f64;
    let n50_ref = if v > 0.001 { 0.629 * (co * ao + chah) / v } else { 0.0 };
    if (v - 0.001).abs() < 1e-4 {
        obs.ambiguous("volume at the 0.001 threshold");
        return;
    }
    let mut bad = |name: &str, got: f64, want: f64, obs: &mut Obs| {
        if !close(got, want, 2e-4, 2e-3_f64.min(1e-3 + want.abs() * 1e-4)) {
            obs.violation(&format!("n50:{}", name), format!("{}: {} = {} but reference {:.5}", origin, name, got, want), ctx());
        }
    };
    bad("walls_a", n.walls_a as f64, ao, obs);
    bad("windows_a", n.windows_a as f64, ah, obs);
    bad("windows_c_a", n.windows_c_a as f64, chah, obs);
    bad("walls_c_ref", n.walls_c_ref as f64, co, obs);
    bad("walls_c_a_ref", n.walls_c_a_ref as f64, co * ao, obs);
    bad("n50_ref", n.n50_ref as f64, n50_ref, obs);
    if ah > 0.001 {
        bad("windows_c", n.windows_c as f64, chah / ah, obs);
    }
    match m.meta.n50_test_ach {
        Some(test) => {
            obs.count("with_test");
            bad("n50(test)", n.n50 as f64, test as f64, obs);
            if (ao - 0.001).abs() < 1e-4 {
                obs.ambiguous("wall area at the 0.001 threshold");
            } else if ao > 0.001 {
                let wc = ((test as f64 * v) / 0.629 - chah) / ao;
                // the subtraction can cancel: tolerance relative to the terms
                let scale = (test as f64 * v / 0.629).abs().max(chah) / ao;
                if !close(n.walls_c as f64, wc, 2e-4, 1e-3 + 3e-4 * scale) {
                    obs.violation("n50:walls_c(test)", format!("{}: walls_c = {} but the value that satisfies the equation is {:.4}", origin, n.walls_c, wc), ctx());
                }
                if !close(n.walls_c_a as f64, ao * wc, 2e-4, 1e-2 + 3e-4 * scale * ao) {
                    obs.violation("n50:walls_c_a(test)", format!("{}: walls_c_a = {} but reference {:.4}", origin, n.walls_c_a, ao * wc), ctx());
                }
                // identity: the reported permeabilities reproduce n50
                if v > 0.001 {
                    let back = 0.629 * (n.walls_c_a as f64 + n.windows_c_a as f64) / v;
                    if !close(back, n.n50 as f64, 1e-3, 1e-3) {
                        obs.violation("n50:identity", format!("{}: 0.629 (walls_c_a + windows_c_a)/V = {:.4} but n50 = {}", origin, back, n.n50), ctx());
                    }
                }
            } else {
                obs.count("test_without_wall_area");
                bad("walls_c(no wall area)", n.walls_c as f64, co, obs);
            }
        }
        None => {
            obs.count("without_test");
            bad("n50", n.n50 as f64, n50_ref, obs);
            bad("walls_c", n.walls_c as f64, co, obs);
            bad("walls_c_a", n.walls_c_a as f64, co * ao, obs);
        }
    }
    if v <= 0.001 {
        obs.count("zero_volume");
    }
    if obs.samples.len() < 2 {
        obs.sample(json!({"origin": origin, "n50": n.n50, "n50_ref": n.n50_ref, "reference_n50_ref": n50_ref, "A_o": ao, "A_h": ah, "sum_Ch_Ah": chah, "V": v, "C_o": co, "test": m.meta.n50_test_ach}));
    }
}

impl Property for C09 {
    fn id(&self) -> &'static str {
        "C09"
    }
    fn rule(&self) -> String {
        "generated models (new/existing, with/without blower-door value, windows with/without construction, multipliers, ground/adiabatic/interior elements, zero-volume and zero-wall-area corner cases) + real models; n50_data compared with the harness's own formula; non-trivial = distinct model with exterior envelope area > 1 m2 and volume > 1 m3".into()
    }
    fn assumptions(&self) -> Vec<String> {
        vec!["net wall areas as reported in props (checked by C08); V must equal the harness's own net envelope volume within its 2-decimal rounding".into()]
    }
    fn workloads(&self, tier: Tier) -> Vec<(String, u64)> {
        vec![("real".into(), real_count()), ("generated".into(), tier.pick(2700, 80_000)), ("corner".into(), tier.pick(450, 5000))]
    }
    fn required(&self, _tier: Tier) -> Vec<(String, u64)> {
        vec![("with_test".into(), 100), ("without_test".into(), 100), ("zero_volume".into(), 10), ("test_without_wall_area".into(), 5), ("window_without_cons".into(), 30)]
    }
    fn run_case(&self, case: &Case, obs: &mut Obs) {
        let mut rng = case.rng();
        let (origin, m) = match case.kind {
            "real" => match real_model(case.index, obs) {
                Some(x) => x,
                None => return,
            },
            "corner" => {
                let mut m = gen_indic_model(&mut rng);
                match rng.usize(3) {
                    0 => {
                        // no exterior opaque area: every exterior wall becomes adiabatic
                        for w in m.walls.iter_mut() {
                            if w.bounds == BoundaryType::EXTERIOR {
                                w.bounds = BoundaryType::ADIABATIC;
                            }
                        }
                        m.meta.n50_test_ach = Some(rng.dec(0.5, 9.0, 2) as f32);
                    }
                    1 => {
                        // no volume: nothing is inside the envelope
                        for s in m.spaces.iter_mut() {
                            s.inside_tenv = false;
                        }
                    }
                    _ => {
                        // no floors: spaces have no area
                        m.walls.retain(|w| tilt_class(w.geometry.tilt) != TiltC::Bottom);
                    }
                }
                (format!("corner#{}", case.index), m)
            }
            _ => (format!("generated#{}", case.index), gen_indic_model(&mut rng)),
        };
        obs.eval();
        let ind = match indicators(&m, obs, &origin) {
            Some(i) => i,
            None => return,
        };
        if ind.n50_data.walls_a > 1.0 && ind.n50_data.vol > 1.0 {
            obs.nontrivial_str(&format!("{}{}", origin, ind.n50_data.n50_ref));
        }
        let r = MRef::new(&m);
        if m.windows.iter().any(|w| !r.wincons.contains_key(&w.cons) && r.wall(w.wall).map_or(false, |wl| r.is_tenv(wl) && wl.bounds == BoundaryType::EXTERIOR)) {
            obs.count("window_without_cons");
        }
        check_n50(&m, &ind, &origin, obs);
    }
}

// =======================================================================================
// C10

pub struct C10;

/// H_sol;jul by orientation class, read by the harness from the monthly table (dir[6] + dif[6])
pub fn july_table(zone_name: &str) -> BTreeMap<String, f64> {
    let z = zone(zone_name);
    let mut out = BTreeMap::new();
    let t = bemodel::climatedata::MONTHLYRADDATA.lock().unwrap_or_else(|e| e.into_inner());
    for e in t.iter() {
        if e.zone == z {
            if let (Some(d), Some(f)) = (e.dir.get(6), e.dif.get(6)) {
                out.insert(format!("{}", e.orientation), *d as f64 + *f as f64);
            }
        }
    }
    out
}

fn orient_class(w: &bemodel::Wall) -> (&'static str, bool) {
    if tilt_class(w.geometry.tilt) != TiltC::Side {
        ("Horiz.", tilt_boundary_distance(w.geometry.tilt) < 0.001 && tilt_boundary_distance(w.geometry.tilt) > 0.0)
    } else {
        let sd = sector_boundary_distance(w.geometry.azimuth);
        let td = tilt_boundary_distance(w.geometry.tilt);
        (sector(w.geometry.azimuth), (sd < 0.001 && sd > 0.0) || (td < 0.001 && td > 0.0))
    }
}

fn check_qsoljul(m: &Model, ind: &EnergyIndicators, origin: &str, obs: &mut Obs) {
    let r = MRef::new(m);
    let q = &ind.q_soljul_data;
    let zname = format!("{}", m.meta.climate);
    let table = july_table(&zname);
    let ctx = || json!({"origin": origin, "zone": zname, "q_soljul_data": format!("{:?}", q), "H_sol_jul_table": table});
    // every figure finite
    let mut figures: Vec<(String, f32)> = vec![
        ("q_soljul".into(), q.q_soljul),
        ("Q_soljul".into(), q.Q_soljul),
        ("a_wp".into(), q.a_wp),
        ("irradiance_mean".into(), q.irradiance_mean),
        ("fshobst_mean".into(), q.fshobst_mean),
        ("gglshwi_mean".into(), q.gglshwi_mean),
        ("f_f_mean".into(), q.f_f_mean),
    ];
    for (o, d) in &q.detail {
        for (n, v) in [("gains", d.gains), ("a", d.a), ("irradiance", d.irradiance), ("f_f_mean", d.f_f_mean), ("gglshwi_mean", d.gglshwi_mean), ("fshobst_mean", d.fshobst_mean)] {
            figures.push((format!("detail[{}].{}", o, n), v));
        }
    }
    let a_ref = ind.area_ref as f64;
    let mut n_win = 0;
    let (mut qq, mut awp) = (0.0, 0.0);
    let (mut s_h, mut s_f, mut s_g, mut s_ff) = (0.0, 0.0, 0.0, 0.0);
    let mut per: BTreeMap<&'static str, (f64, f64, f64, f64, f64)> = BTreeMap::new(); // a, gains, f, g, ff
    let mut ambiguous = false;
    for win in &m.windows {
        let w = match r.wall(win.wall) {
            Some(w) => w,
            None => continue,
        };
        if !(r.is_tenv(w) && matches!(w.bounds, BoundaryType::EXTERIOR | BoundaryType::GROUND)) {
            continue;
        }
        n_win += 1;
        let (cls, amb) = orient_class(w);
        ambiguous |= amb;
        let h = match table.get(cls) {
            Some(h) => *h,
            None => {
                obs.violation("qsoljul-table-entry-missing", format!("{}: no July irradiation for zone {} class {}", origin, zname, cls), ctx());
                return;
            }
        };
        obs.count(&format!("class:{}", cls));
        let (g, ff) = match r.wincons.get(&win.cons) {
            Some(i) => {
                let c = &m.cons.wincons[*i];
                // solar factor with shading as reported for the construction (judged by C07)
                let g = ind.props.wincons.get(&c.id).map(|p| p.g_glshwi as f64).unwrap_or(0.77);
                (g, c.f_f as f64)
            }
            None => {
                obs.count("window_with_default_cons");
                (0.77, 0.20)
            }
        };
        let f = m
            .overrides
            .windows
            .get(&win.id)
            .and_then(|o| o.f_shobst)
            .or(ind.props.windows.get(&win.id).and_then(|p| p.f_shobst))
            .map(|v| v as f64)
            .unwrap_or(1.0);
        if m.overrides.windows.get(&win.id).and_then(|o| o.f_shobst).is_some() {
            obs.count("window_with_fshobst_override");
        }
        let a = r.win_area(win) * r.mult(w.space);
        let gains = f * g * (1.0 - ff) * a * h;
        qq += gains;
        awp += a;
        s_h += h * a;
        s_f += f * a;
        s_g += g * a;
        s_ff += ff * a;
        let e = per.entry(cls).or_insert((0.0, 0.0, 0.0, 0.0, 0.0));
        e.0 += a;
        e.1 += gains;
        e.2 += f * a;
        e.3 += g * a;
        e.4 += ff * a;
    }
    for (name, v) in &figures {
        if !v.is_finite() {
            obs.violation(
                &format!("qsoljul-not-finite:{}", name.split('[').next().unwrap_or(name)),
                format!("{}: {} = {} ({} windows enter the sum, A_ref = {})", origin, name, v, n_win, a_ref),
                ctx(),
            );
            return;
        }
    }
    if n_win == 0 {
        obs.count("model_without_solar_windows");
        if q.Q_soljul != 0.0 || q.a_wp != 0.0 || !q.detail.is_empty() {
            obs.violation("qsoljul-nonzero-without-windows", format!("{}: no envelope window but Q={} a_wp={} detail={}", origin, q.Q_soljul, q.a_wp, q.detail.len()), ctx());
        }
        return;
    }
    if ambiguous {
        obs.ambiguous("window orientation within 0.001 degrees of a sector or tilt-class edge");
        return;
    }
    let mut bad = |name: &str, got: f64, want: f64, obs: &mut Obs| {
        if !close(got, want, 3e-4, 1e-3) {
            obs.violation(&format!("qsoljul:{}", name), format!("{}: {} = {} but reference {:.5}", origin, name, got, want), ctx());
        }
    };
    bad("Q_soljul", q.Q_soljul as f64, qq, obs);
    bad("a_wp", q.a_wp as f64, awp, obs);
    if a_ref > 0.0 {
        bad("q_soljul", q.q_soljul as f64, qq / a_ref, obs);
    } else {
        obs.count("model_without_reference_area");
    }
    if awp > 1e-6 {
        bad("irradiance_mean", q.irradiance_mean as f64, s_h / awp, obs);
        bad("fshobst_mean", q.fshobst_mean as f64, s_f / awp, obs);
        bad("gglshwi_mean", q.gglshwi_mean as f64, s_g / awp, obs);
        bad("f_f_mean", q.f_f_mean as f64, s_ff / awp, obs);
    }
    // per-orientation breakdown
    let mut sum_g = 0.0;
    let mut sum_a = 0.0;
    for (o, d) in &q.detail {
        let key = format!("{}", o);
        sum_g += d.gains as f64;
        sum_a += d.a as f64;
        match per.iter().find(|(k, _)| **k == key) {
            None => obs.violation("qsoljul-detail-extra-orientation", format!("{}: detail has orientation {} that no window has", origin, key), ctx()),
            Some((_, e)) => {
                bad(&format!("detail.a"), d.a as f64, e.0, obs);
                bad(&format!("detail.gains"), d.gains as f64, e.1, obs);
                bad(&format!("detail.irradiance"), d.irradiance as f64, table[key.as_str()], obs);
                if e.0 > 1e-6 {
                    bad(&format!("detail.fshobst_mean"), d.fshobst_mean as f64, e.2 / e.0, obs);
                    bad(&format!("detail.gglshwi_mean"), d.gglshwi_mean as f64, e.3 / e.0, obs);
                    bad(&format!("detail.f_f_mean"), d.f_f_mean as f64, e.4 / e.0, obs);
                }
            }
        }
    }
    if per.len() != q.detail.len() {
        obs.violation("qsoljul-detail-missing-orientation", format!("{}: {} orientation classes have windows, detail has {}", origin, per.len(), q.detail.len()), ctx());
    }
    bad("sum(detail.gains)", sum_g, q.Q_soljul as f64, obs);
    bad("sum(detail.a)", sum_a, q.a_wp as f64, obs);
    if obs.samples.len() < 2 {
        obs.sample(json!({"origin": origin, "zone": zname, "windows": n_win, "Q_soljul": q.Q_soljul, "Q_reference": qq, "q_soljul": q.q_soljul, "A_ref": a_ref, "classes": per.keys().collect::<Vec<_>>()}));
    }
}

impl Property for C10 {
    fn id(&self) -> &'static str {
        "C10"
    }
    fn rule(&self) -> String {
        "generated models x all 32 climate zones (windows in all 9 orientation classes incl. skylights, f_shobst overrides, missing constructions, multipliers, models without windows / without reference area) + real models; q_soljul_data compared with the harness's own sum over its own envelope rule and its own sector table, H_sol;jul read by the harness from MONTHLYRADDATA; non-trivial = distinct (model, zone) with at least one envelope window".into()
    }
    fn assumptions(&self) -> Vec<String> {
        vec![
            "F_sh,obst and g_gl;sh;wi per element are taken as reported in props (judged by C12 / C07)".into(),
            "windows within 0.001 degrees of (but not exactly on) a sector or tilt-class edge are counted ambiguous".into(),
        ]
    }
    fn workloads(&self, tier: Tier) -> Vec<(String, u64)> {
        vec![("real".into(), real_count()), ("generated".into(), 32 * tier.pick(36, 1000)), ("no-window".into(), tier.pick(300, 3200))]
    }
    fn required(&self, _tier: Tier) -> Vec<(String, u64)> {
        let mut v: Vec<(String, u64)> = ["S", "SE", "E", "NE", "N", "NW", "W", "SW", "Horiz."].iter().map(|c| (format!("class:{}", c), 20)).collect();
        v.push(("model_without_solar_windows".into(), 50));
        v.push(("model_without_reference_area".into(), 5));
        v.push(("window_with_default_cons".into(), 30));
        v.push(("window_with_fshobst_override".into(), 30));
        for z in ZONES {
            v.push((format!("zone_seen:{}", z), 1));
        }
        v
    }
    fn run_case(&self, case: &Case, obs: &mut Obs) {
        let mut rng = case.rng();
        let (origin, m) = match case.kind {
            "real" => match real_model(case.index, obs) {
                Some(x) => x,
                None => return,
            },
            "no-window" => {
                let mut m = gen_indic_model(&mut rng);
                m.meta.climate = zone(ZONES[(case.index % 32) as usize]);
                match rng.usize(3) {
                    0 => m.windows.clear(),
                    1 => {
                        // windows only on interior / adiabatic walls
                        let ok: Vec<Uuid> = m.walls.iter().filter(|w| matches!(w.bounds, BoundaryType::INTERIOR | BoundaryType::ADIABATIC)).map(|w| w.id).collect();
                        if ok.is_empty() {
                            m.windows.clear();
                        } else {
                            for w in m.windows.iter_mut() {
                                w.wall = ok[rng.usize(ok.len())];
                            }
                        }
                    }
                    _ => {
                        // windows but no habitable space inside the envelope: no reference area
                        for s in m.spaces.iter_mut() {
                            s.kind = bemodel::SpaceType::UNINHABITED;
                        }
                    }
                }
                (format!("no-window#{}", case.index), m)
            }
            _ => {
                let mut m = gen_indic_model(&mut rng);
                m.meta.climate = zone(ZONES[(case.index % 32) as usize]);
                (format!("generated#{}", case.index), m)
            }
        };
        obs.eval();
        let zi = ZONES.iter().position(|z| *z == format!("{}", m.meta.climate)).unwrap_or(0);
        let key = format!("zone_seen:{}", ZONES[zi]);
        if !obs.counters.contains_key(&key) {
            obs.count(&key);
        }
        let ind = match indicators(&m, obs, &origin) {
            Some(i) => i,
            None => return,
        };
        if ind.q_soljul_data.a_wp > 0.0 {
            obs.nontrivial_str(&format!("{}{}{}", origin, m.meta.climate, ind.q_soljul_data.Q_soljul));
        }
        check_qsoljul(&m, &ind, &origin, obs);
    }
    fn extra_evidence(&self, agg: &Obs) -> Value {
        json!({"zones_observed": agg.counters.keys().filter(|k| k.starts_with("zone_seen:")).count()})
    }
}

// =======================================================================================
// C11

pub struct C11;

fn scale_model(m: &Model, s: f32) -> Model {
    let mut m = m.clone();
    for sp in m.spaces.iter_mut() {
        sp.height *= s;
        sp.z *= s;
    }
    for w in m.walls.iter_mut() {
        for p in w.geometry.polygon.iter_mut() {
            p.x *= s;
            p.y *= s;
        }
        if let Some(p) = w.geometry.position.as_mut() {
            p.coords *= s;
        }
    }
    for w in m.shades.iter_mut() {
        for p in w.geometry.polygon.iter_mut() {
            p.x *= s;
            p.y *= s;
        }
        if let Some(p) = w.geometry.position.as_mut() {
            p.coords *= s;
        }
    }
    for w in m.windows.iter_mut() {
        w.geometry.width *= s;
        w.geometry.height *= s;
        w.geometry.setback *= s;
        if let Some(p) = w.geometry.position.as_mut() {
            p.coords *= s;
        }
    }
    for c in m.cons.wallcons.iter_mut() {
        for l in c.layers.iter_mut() {
            l.e *= s;
        }
    }
    m
}

fn check_globals(m: &Model, ind: &EnergyIndicators, origin: &str, obs: &mut Obs) {
    let r = MRef::new(m);
    let g = &ind.props.global;
    let ctx = || json!({"origin": origin, "global": format!("{:?}", g), "area_ref": ind.area_ref, "vol_env_net": ind.vol_env_net, "vol_env_gross": ind.vol_env_gross, "compactness": ind.compactness});
    let a_ref = r.a_ref();
    let vg = r.vol_gross();
    let vn = r.vol_net();
    let exposed = r.exposed_area();
    let comp = if exposed == 0.0 { 0.0 } else { r2(vg) / exposed };
    // the volume is a 2-decimal figure: a sum that lands on x.xx5 may be rounded either way (one step of 0.01), the
    // exposed area carries the rounding of its terms
    let comp_tol = (0.0101 + 0.0056 * comp) / exposed.max(1.0) + 1e-5;
    let mut bad = |name: &str, got: f64, want: f64, obs: &mut Obs| {
        if !close(got, want, 2e-5, 0.0056) {
            obs.violation(&format!("globals:{}", name), format!("{}: {} = {} but reference {:.4}", origin, name, got, want), ctx());
        }
    };
    bad("area_ref", ind.area_ref as f64, a_ref, obs);
    bad("props.global.a_ref", g.a_ref as f64, a_ref, obs);
    bad("vol_env_gross", ind.vol_env_gross as f64, vg, obs);
    bad("props.global.vol_env_gross", g.vol_env_gross as f64, vg, obs);
    bad("vol_env_net", ind.vol_env_net as f64, vn, obs);
    bad("props.global.vol_env_net", g.vol_env_net as f64, vn, obs);
    if exposed > 0.0 && exposed < 0.01 {
        obs.ambiguous("exposed area below 0.01 m2");
    } else if !close(ind.compactness as f64, comp, 1e-4, comp_tol) || !close(g.compactness as f64, comp, 1e-4, comp_tol) {
        obs.violation("globals:compactness", format!("{}: compactness = {} / {} but V/A = {:.5} (V={:.3}, A={:.3})", origin, ind.compactness, g.compactness, comp, vg, exposed), ctx());
    }
    // ventilation rate reported with the indicators == the one used inside the U-value calculation
    let used = match guard(|| m.global_ventilation_rate()) {
        Ok(v) => v as f64,
        Err(p) => {
            obs.panic_violation(&p, json!({"where": "Model::global_ventilation_rate"}));
            return;
        }
    };
    let reported = g.global_ventilation_rate as f64;
    // no habitable volume inside the envelope: the rate is undefined (infinite) on both sides
    let both_undefined = !used.is_finite() && !reported.is_finite() && (used.is_nan() == reported.is_nan());
    // both divide by a volume rounded to 2 decimals (summed in different orders): +-0.01 m3 on V
    let vtol = 0.011 / r.vol_inh_net().max(0.011);
    if !(both_undefined || close(used, reported, 1e-5 + vtol, 1e-7)) {
        obs.violation(
            "globals:ventilation-rate-reported-differs-from-rate-used-for-U",
            format!("{}: props.global.global_ventilation_rate = {} but Model::global_ventilation_rate() = {}", origin, reported, used),
            ctx(),
        );
    }
    if m.meta.global_ventilation_l_s.is_some() {
        obs.count("with_global_ventilation");
        // and it is 3.6 q / V of the habitable net volume inside the envelope
        if let Some(want) = r.global_vent() {
            // V is a sum of per-space volumes, each a 2-decimal figure (and a sum on x.xx5 may round either way)
            if want.is_finite() && r.vol_inh_net() > 1.0 && !close(reported, want, 1e-4, 1e-5 + want * (0.0101 + 0.0051 * m.spaces.len() as f64) / r.vol_inh_net()) {
                obs.violation("globals:ventilation-rate-value", format!("{}: global ventilation rate {} but 3.6 q / V = {:.6}", origin, reported, want), ctx());
            }
        }
    }
    // envelope membership and classes per element
    for w in &m.walls {
        if m.walls.iter().filter(|x| x.id == w.id).count() != 1 {
            continue;
        }
        let wp = match ind.props.walls.get(&w.id) {
            Some(p) => p,
            None => {
                obs.violation("globals:props-missing-wall", format!("{}: no props for wall {}", origin, w.name), ctx());
                continue;
            }
        };
        let tenv = r.is_tenv(w);
        obs.count(if tenv { "tenv:yes" } else { "tenv:no" });
        if wp.is_tenv != tenv {
            obs.violation(
                &format!("envelope-membership:{:?}", w.bounds),
                format!("{}: {} ({:?}) is_tenv = {} but the rule gives {} (space inside: {}, next inside: {:?})", origin, w.name, w.bounds, wp.is_tenv, tenv, r.inside(w.space), w.next_to.map(|n| r.inside(n))),
                json!({"wall": format!("{:?}", w)}),
            );
        }
        let td = tilt_boundary_distance(w.geometry.tilt);
        if td > 0.0 && td < 1e-4 {
            obs.ambiguous("tilt within 1e-4 of a class boundary");
            continue;
        }
        let tc = tilt_class(w.geometry.tilt);
        if format!("{}", wp.tilt) != tc.name() {
            obs.violation("tilt-class", format!("{}: {} tilt {} classified {} but angle mod 360 is {}", origin, w.name, w.geometry.tilt, wp.tilt, tc.name()), json!({"wall": format!("{:?}", w)}));
        }
        let want_o = if tc == TiltC::Side {
            if sector_boundary_distance(w.geometry.azimuth) < 1e-4 && sector_boundary_distance(w.geometry.azimuth) > 0.0 {
                obs.ambiguous("azimuth within 1e-4 of a sector edge");
                continue;
            }
            sector(w.geometry.azimuth)
        } else {
            "Horiz."
        };
        if format!("{}", wp.orientation) != want_o {
            obs.violation("orientation-class", format!("{}: {} azimuth {} tilt {} classified {} but expected {}", origin, w.name, w.geometry.azimuth, w.geometry.tilt, wp.orientation, want_o), json!({"wall": format!("{:?}", w)}));
        }
    }
    for win in &m.windows {
        if let (Some(wp), Some(w)) = (ind.props.windows.get(&win.id), r.wall(win.wall)) {
            if m.windows.iter().filter(|x| x.id == win.id).count() == 1 && wp.is_tenv != r.is_tenv(w) {
                obs.violation("envelope-membership:window", format!("{}: window {} is_tenv = {} but its wall's membership is {}", origin, win.name, wp.is_tenv, r.is_tenv(w)), json!({"window": format!("{:?}", win)}));
            }
        }
    }
    if obs.samples.len() < 2 {
        obs.sample(json!({"origin": origin, "area_ref": ind.area_ref, "reference_area_ref": a_ref, "vol_gross": [ind.vol_env_gross as f64, vg], "vol_net": [ind.vol_env_net as f64, vn], "compactness": [ind.compactness as f64, comp], "ventilation_rate_reported": reported, "ventilation_rate_used": used}));
    }
}

const SWEEP_CHUNKS: u64 = 4096;

/// all f32 in [-720, 1080] in a fixed order: index -> value
fn sweep_value(i: u64) -> f32 {
    let pos = 1080.0f32.to_bits() as u64 + 1; // 0.0 ..= 1080.0
    if i < pos {
        f32::from_bits(i as u32)
    } else {
        // -0.0 ..= -720.0
        f32::from_bits(0x8000_0000u32 + (i - pos) as u32)
    }
}
fn sweep_len() -> u64 {
    (1080.0f32.to_bits() as u64 + 1) + (720.0f32.to_bits() as u64 + 1)
}

impl C11 {
    fn sweep_one(&self, a: f32, which: u8, obs: &mut Obs, viol: &mut u32) {
        use bemodel::{Orientation, Tilt};
        let af = a as f64;
        let cls = |x: f32| -> String {
            if which == 0 {
                format!("{}", Tilt::from(x))
            } else {
                format!("{}", Orientation::from(x))
            }
        };
        let own = |x: f32| -> &'static str {
            if which == 0 {
                tilt_class(x).name()
            } else {
                sector(x)
            }
        };
        let dist = |x: f32| -> f64 {
            if which == 0 {
                tilt_boundary_distance(x)
            } else {
                sector_boundary_distance(x)
            }
        };
        let c0 = cls(a);
        // class of the exact residue
        let ulp360 = 3.0517578125e-5; // ulp of f32 around 360
        if dist(a) <= 2.0 * ulp360 && dist(a) > 0.0 {
            obs.ambiguous("angle within 2 ulp(360) of a class boundary");
        } else if c0 != own(a) {
            *viol += 1;
            if *viol <= 3 {
                obs.violation(
                    if which == 0 { "tilt-class-not-function-of-angle-mod-360" } else { "orientation-class-not-function-of-angle-mod-360" },
                    format!("angle {:e} ({}): classified {} but its residue mod 360 = {} is {}", a, a.to_bits(), c0, crate::oracle::mref::mod360(a), own(a)),
                    json!({"angle_bits": a.to_bits(), "angle": af}),
                );
            }
        }
        for k in [-3i32, -2, -1, 1, 2, 3] {
            let b = af + 360.0 * k as f64;
            if !(-720.0..=1080.0).contains(&b) {
                continue;
            }
            let bf = b as f32;
            if bf as f64 != b {
                continue;
            }
            obs.add("periodic_pairs_compared", 1);
            if dist(a) <= 2.0 * ulp360 && dist(a) > 0.0 {
                continue;
            }
            let c1 = cls(bf);
            if c1 != c0 {
                *viol += 1;
                if *viol <= 3 {
                    obs.violation(
                        if which == 0 { "tilt-class-differs-for-angle-plus-360k" } else { "orientation-class-differs-for-angle-plus-360k" },
                        format!("angle {} is {} but {} (= angle {:+}*360, exactly representable) is {}", a, c0, bf, k, c1),
                        json!({"a_bits": a.to_bits(), "b_bits": bf.to_bits()}),
                    );
                }
            }
        }
    }

    fn sweep(&self, case: &Case, obs: &mut Obs, which: u8, stride: u64) {
        let n = sweep_len();
        let per = (n + SWEEP_CHUNKS - 1) / SWEEP_CHUNKS;
        let (lo, hi) = (case.index * per, ((case.index + 1) * per).min(n));
        let mut viol = 0u32;
        let mut rng = case.rng();
        let mut i = lo + if stride > 1 { rng.below(stride) } else { 0 };
        let mut count = 0u64;
        while i < hi {
            self.sweep_one(sweep_value(i), which, obs, &mut viol);
            count += 1;
            i += stride;
        }
        obs.evals(count);
        obs.add(if which == 0 { "tilt_angles_swept" } else { "orientation_angles_swept" }, count);
        if viol > 3 {
            obs.add("further_sweep_violations_not_listed", (viol - 3) as u64);
        }
        obs.nontrivial(crate::rng::fnv64(format!("sweep{}{}", which, case.index).as_bytes()));
    }

    /// parser (hulc::bdl::Wall::position) and model (bemodel::Tilt::from) agree for every tilt in [0,360]
    fn sweep_parser(&self, case: &Case, obs: &mut Obs, stride: u64) {
        let n = 360.0f32.to_bits() as u64 + 1;
        let per = (n + SWEEP_CHUNKS - 1) / SWEEP_CHUNKS;
        let (lo, hi) = (case.index * per, ((case.index + 1) * per).min(n));
        let mut wall = hulc::bdl::Wall::default();
        let mut rng = case.rng();
        let mut i = lo + if stride > 1 { rng.below(stride) } else { 0 };
        let mut count = 0u64;
        let mut viol = 0;
        while i < hi {
            let t = f32::from_bits(i as u32);
            wall.tilt = t;
            let a = format!("{:?}", wall.position());
            let b = format!("{}", bemodel::Tilt::from(t));
            if a != b {
                viol += 1;
                if viol <= 3 {
                    obs.violation("parser-and-model-classify-tilt-differently", format!("tilt {} ({}): parser says {}, model says {}", t, t.to_bits(), a, b), json!({"tilt_bits": t.to_bits()}));
                }
            }
            count += 1;
            i += stride;
        }
        obs.evals(count);
        obs.add("parser_model_tilts_swept", count);
        obs.nontrivial(crate::rng::fnv64(format!("sweepp{}", case.index).as_bytes()));
    }
}

impl Property for C11 {
    fn id(&self) -> &'static str {
        "C11"
    }
    fn level(&self, _tier: Tier) -> &'static str {
        "exploration"
    }
    fn rule(&self) -> String {
        "aggregates: generated models (spaces in/out of the envelope, three kinds, multipliers, several floors per space, ceilings from either side) + real models compared with own computation; metamorphic scaling s in [0.25,4]; classifiers: thorough = every f32 in [-720,1080] (2.29e9 values) for Tilt::from and Orientation::from against the exact residue mod 360 and against every exactly representable angle+360k, and every f32 in [0,360] for parser-vs-model; quick = stratified stride over the same ordered bit-pattern space; non-trivial = distinct model with >= 2 spaces, or distinct chunk of the float space".into()
    }
    fn assumptions(&self) -> Vec<String> {
        vec![
            "aggregates are reported with 2 decimals: +-0.0056 absolute".into(),
            "angles within 2 ulp(360) of a class boundary are counted ambiguous for the residue comparison".into(),
        ]
    }
    fn workloads(&self, tier: Tier) -> Vec<(String, u64)> {
        vec![
            ("real".into(), real_count()),
            ("generated".into(), tier.pick(1800, 40_000)),
            ("scaled".into(), tier.pick(600, 10_000)),
            ("sweep-tilt".into(), SWEEP_CHUNKS),
            ("sweep-orientation".into(), SWEEP_CHUNKS),
            ("sweep-parser-vs-model".into(), SWEEP_CHUNKS),
        ]
    }
    fn exhaustive(&self, _tier: Tier) -> bool {
        false
    }
    fn required(&self, tier: Tier) -> Vec<(String, u64)> {
        vec![
            ("tenv:yes".into(), 500),
            ("tenv:no".into(), 200),
            ("with_global_ventilation".into(), 100),
            ("tilt_angles_swept".into(), tier.pick(10_000_000, 2_290_000_000)),
            ("orientation_angles_swept".into(), tier.pick(10_000_000, 2_290_000_000)),
            ("parser_model_tilts_swept".into(), tier.pick(5_000_000, 1_130_000_000)),
            ("periodic_pairs_compared".into(), 100_000),
        ]
    }
    fn time_cap_s(&self, tier: Tier) -> u64 {
        tier.pick(200, 3000)
    }
    fn run_case(&self, case: &Case, obs: &mut Obs) {
        let stride = case.tier.pick(197, 1);
        match case.kind {
            "sweep-tilt" => return self.sweep(case, obs, 0, stride),
            "sweep-orientation" => return self.sweep(case, obs, 1, stride),
            "sweep-parser-vs-model" => return self.sweep_parser(case, obs, case.tier.pick(97, 1)),
            _ => {}
        }
        let mut rng = case.rng();
        let (origin, m) = match case.kind {
            "real" => match real_model(case.index, obs) {
                Some(x) => x,
                None => return,
            },
            _ => (format!("{}#{}", case.kind, case.index), gen_indic_model(&mut rng)),
        };
        obs.eval();
        let ind = match indicators(&m, obs, &origin) {
            Some(i) => i,
            None => return,
        };
        if m.spaces.len() >= 2 {
            obs.nontrivial_str(&format!("{}{}{}", origin, ind.area_ref, ind.vol_env_net));
        }
        check_globals(&m, &ind, &origin, obs);
        if case.kind == "scaled" {
            let s = rng.dec(0.25, 4.0, 2) as f32;
            let m2 = scale_model(&m, s);
            obs.eval();
            if let Some(i2) = indicators(&m2, obs, &origin) {
                let sf = s as f64;
                let r = MRef::new(&m);
                let n_spaces = m.spaces.len() as f64;
                // rounding of each aggregate: +-0.005 before and after scaling
                let pairs = [
                    ("area_ref", ind.area_ref as f64 * sf * sf, i2.area_ref as f64, 0.0051 * (1.0 + sf * sf)),
                    ("vol_env_gross", ind.vol_env_gross as f64 * sf.powi(3), i2.vol_env_gross as f64, 0.0051 * (1.0 + sf.powi(3))),
                    // net height subtracts a thickness rounded to 3 decimals: +-0.0005 m per space, times its area
                    ("vol_env_net", ind.vol_env_net as f64 * sf.powi(3), i2.vol_env_net as f64, 0.0051 * (1.0 + sf.powi(3)) + 0.0006 * (1.0 + sf) * sf * sf * r.a_ref().max(r.vol_gross() / 2.0) * n_spaces.min(1.0) + 0.0006 * sf * sf * (1.0 + sf) * m.spaces.iter().map(|sp| r.space_area(sp.id) * sp.multiplier as f64).sum::<f64>()),
                ];
                for (name, want, got, tol) in pairs {
                    if !close(got, want, 1e-4, tol) {
                        obs.violation(&format!("scaling:{}", name), format!("{}: scaling all lengths by {} gives {} = {} but expected {:.4}", origin, s, name, got, want), json!({"scale": s, "before": format!("{:?}", ind.props.global), "after": format!("{:?}", i2.props.global)}));
                    }
                }
                let exposed = r.exposed_area();
                if exposed > 1.0 {
                    let want = ind.compactness as f64 * sf;
                    let tol = 0.011 * (1.0 + sf) / exposed.min(exposed * sf * sf) + 1e-4 * want;
                    if !close(i2.compactness as f64, want, 1e-3, tol) {
                        obs.violation("scaling:compactness", format!("{}: scaling by {} gives compactness {} but expected {:.5}", origin, s, i2.compactness, want), json!({"scale": s}));
                    }
                }
            }
        }
    }
}
