//! C07 Window U-value and solar factors follow their definitions

use bemodel::{BoundaryType, Frame, Glass, Model, Point2, Point3, Space, Uuid, Wall, WallGeom, WinCons, WinGeom, Window};
use serde_json::json;

use crate::core::{Case, Obs, Property, Tier};
use crate::gen::model::{gen_cons, uuid};
use crate::panicx::guard;
use crate::rng::Rng;

pub struct C07;

const TOL: f64 = 0.0051;

fn mini_model(rng: &mut Rng, db: bemodel::ConsDb, wincons_ids: &[Uuid], unit_windows: bool) -> Model {
    let mut m = Model::default();
    let sid = uuid(rng);
    m.spaces.push(Space { id: sid, name: "s".into(), height: 3.0, ..Default::default() });
    let wid = uuid(rng);
    m.walls.push(Wall {
        id: wid,
        name: "w".into(),
        bounds: BoundaryType::EXTERIOR,
        cons: db.wallcons.first().map(|c| c.id).unwrap_or_else(Uuid::nil),
        space: sid,
        next_to: None,
        geometry: WallGeom {
            tilt: 90.0,
            azimuth: 0.0,
            position: Some(Point3::new(0.0, 0.0, 0.0)),
            polygon: vec![Point2::new(0.0, 0.0), Point2::new(1000.0, 0.0), Point2::new(1000.0, 3.0), Point2::new(0.0, 3.0)],
        },
    });
    let fid = uuid(rng);
    m.walls.push(Wall {
        id: fid,
        name: "f".into(),
        bounds: BoundaryType::GROUND,
        cons: db.wallcons.first().map(|c| c.id).unwrap_or_else(Uuid::nil),
        space: sid,
        next_to: None,
        geometry: WallGeom {
            tilt: 180.0,
            azimuth: 0.0,
            position: None,
            polygon: vec![Point2::new(0.0, 0.0), Point2::new(10.0, 0.0), Point2::new(10.0, 10.0), Point2::new(0.0, 10.0)],
        },
    });
    for (i, c) in wincons_ids.iter().enumerate() {
        m.windows.push(Window {
            id: uuid(rng),
            name: format!("v{}", i),
            cons: *c,
            wall: wid,
            // no position: obstruction factors are irrelevant here and are skipped by the library
            // (1 m2 windows make the batch arithmetic easy; the single-window workload uses other sizes, where a factor that
            // is missing or applied twice shows)
            geometry: if unit_windows { WinGeom { position: None, height: 1.0, width: 1.0, setback: 0.0 } } else { WinGeom { position: None, height: rng.dec(0.4, 2.5, 2) as f32, width: rng.dec(0.4, 3.0, 2) as f32, setback: 0.0 } },
        });
    }
    m.cons = db;
    m
}

fn close(a: f64, b: f64, tol: f64) -> bool {
    (a - b).abs() <= tol + 1e-6 * b.abs()
}

impl Property for C07 {
    fn id(&self) -> &'static str {
        "C07"
    }
    fn rule(&self) -> String {
        "window constructions generated with frame fraction in [0,1] (incl. 0 and 1), dU in [0,50], glazing/frame U over several decades, optional shading factor, glazing/frame reference present | nil | dangling; each construction is observed through WinCons::u_value/g_glwi/g_glshwi and through EnergyIndicators.props.wincons and K_data; non-trivial = distinct (f_f, dU, U_g, U_f, g, shading, link state) tuple whose definition value differs from both U_g and U_f by more than 0.01 or whose link is unresolved".into()
    }
    fn assumptions(&self) -> Vec<String> {
        vec![
            "two-decimal rounding of the reported values admits ±0.0051".into(),
            "for a construction whose frame is missing but whose glazing resolves, the statement does not fix g_gl;wi: both 0.77 and 0.90*g_gl;n are accepted".into(),
        ]
    }
    fn workloads(&self, tier: Tier) -> Vec<(String, u64)> {
        vec![("wincons-batch".into(), tier.pick(400, 10_000)), ("single-window-default".into(), tier.pick(800, 5000))]
    }
    fn required(&self, _tier: Tier) -> Vec<(String, u64)> {
        vec![("resolved".into(), 1000), ("glass_missing".into(), 100), ("frame_missing".into(), 100), ("shading_given".into(), 100), ("k_default_5_7".into(), 50)]
    }
    fn run_case(&self, case: &Case, obs: &mut Obs) {
        let mut rng = case.rng();
        match case.kind {
            "wincons-batch" => self.batch(&mut rng, obs),
            _ => self.single(&mut rng, obs),
        }
    }
}

impl C07 {
    fn batch(&self, rng: &mut Rng, obs: &mut Obs) {
        let mut db = gen_cons(rng, 1, 0);
        // richer glass / frame pools
        db.glasses.clear();
        db.frames.clear();
        for i in 0..6 {
            db.glasses.push(Glass {
                id: uuid(rng),
                name: format!("g{}", i),
                u_value: if i == 0 { 5.7 } else { ((rng.logu(0.3, 8.0) * 100.0).round() / 100.0) as f32 },
                // the last glass of the pool is opaque (an opaque panel, door glass): a factor of 0 is a value, not an absence
                g_gln: if i == 5 { 0.0 } else { rng.dec23(0.05, 0.95) as f32 },
            });
            db.frames.push(Frame {
                id: uuid(rng),
                name: format!("f{}", i),
                u_value: if i == 0 { 1.0 } else { ((rng.logu(0.5, 12.0) * 100.0).round() / 100.0) as f32 },
                absorptivity: 0.6,
            });
        }
        let n = 200;
        let mut ids = vec![];
        for i in 0..n {
            let glass_state = rng.usize(10); // 0 nil, 1 dangling, else present
            let frame_state = rng.usize(10);
            let glass = match glass_state {
                0 => Uuid::nil(),
                1 => uuid(rng),
                _ => db.glasses[rng.usize(6)].id,
            };
            let frame = match frame_state {
                0 => Uuid::nil(),
                1 => uuid(rng),
                _ => db.frames[rng.usize(6)].id,
            };
            let wc = WinCons {
                id: uuid(rng),
                name: format!("wc{}", i),
                glass,
                frame,
                f_f: match rng.usize(8) {
                    0 => 0.0,
                    1 => 1.0,
                    _ => rng.dec(0.0, 1.0, 2) as f32,
                },
                delta_u: match rng.usize(4) {
                    0 => 0.0,
                    1 => rng.dec(20.0, 50.0, 0) as f32,
                    _ => rng.dec(0.0, 50.0, 1) as f32,
                },
                g_glshwi: if rng.chance(0.45) { Some(rng.dec23(0.0, 0.9) as f32) } else { None },
                c_100: 27.0,
            };
            ids.push(wc.id);
            db.wincons.push(wc);
        }
        let model = mini_model(rng, db, &ids, true);
        let ind = match guard(|| model.energy_indicators()) {
            Ok(i) => i,
            Err(p) => {
                obs.panic_violation(&p, json!({"where": "energy_indicators on a window-construction batch model"}));
                return;
            }
        };
        let mut sampled = false;
        for wc in &model.cons.wincons {
            obs.eval();
            let glass = model.cons.glasses.iter().find(|g| g.id == wc.glass);
            let frame = model.cons.frames.iter().find(|g| g.id == wc.frame);
            let u_lib = wc.u_value(&model.cons);
            let gwi_lib = wc.g_glwi(&model.cons);
            let gsh_lib = wc.g_glshwi(&model.cons);
            let props = match ind.props.wincons.get(&wc.id) {
                Some(p) => p,
                None => {
                    obs.violation("props-missing-wincons", format!("no props entry for window construction {}", wc.name), json!({"wincons": format!("{:?}", wc)}));
                    continue;
                }
            };
            let ctx = || json!({"wincons": format!("{:?}", wc), "glass": format!("{:?}", glass), "frame": format!("{:?}", frame), "props": format!("{:?}", props), "u_value()": u_lib, "g_glwi()": gwi_lib, "g_glshwi()": gsh_lib});
            let user_sh = wc.g_glshwi.map(|v| v as f64);
            if user_sh.is_some() {
                obs.count("shading_given");
            }
            match (glass, frame) {
                (Some(g), Some(f)) => {
                    obs.count("resolved");
                    let (ug, uf, ff, du) = (g.u_value as f64, f.u_value as f64, wc.f_f as f64, wc.delta_u as f64);
                    let u_ref = (1.0 + du / 100.0) * (ff * uf + (1.0 - ff) * ug);
                    let lo = (1.0 + du / 100.0) * ug.min(uf);
                    let hi = (1.0 + du / 100.0) * ug.max(uf);
                    if (u_ref - ug).abs() > 0.01 && (u_ref - uf).abs() > 0.01 {
                        obs.nontrivial_str(&format!("{:?}{:?}{:?}", wc.f_f.to_bits(), (wc.delta_u.to_bits(), g.u_value.to_bits(), f.u_value.to_bits()), wc.g_glshwi.map(f32::to_bits)));
                    }
                    for (name, got) in [("u_value()", u_lib), ("props.u_value", props.u_value)] {
                        match got {
                            Some(u) if close(u as f64, u_ref, TOL) && (u as f64) >= lo - TOL && (u as f64) <= hi + TOL => {}
                            other => obs.violation(
                                &format!("wincons-u:{}", name),
                                format!("{} = {:?}, definition gives {:.4} (bounds [{:.4},{:.4}])", name, other, u_ref, lo, hi),
                                ctx(),
                            ),
                        }
                    }
                    let gwi_ref = 0.90 * g.g_gln as f64;
                    for (name, got) in [("g_glwi()", gwi_lib.map(|v| v as f64)), ("props.g_glwi", Some(props.g_glwi as f64))] {
                        match got {
                            Some(v) if close(v, gwi_ref, TOL) => {}
                            other => obs.violation(&format!("wincons-gglwi:{}", name), format!("{} = {:?}, 0.90*g_gl;n = {:.4}", name, other, gwi_ref), ctx()),
                        }
                    }
                    let gsh_ref = user_sh.unwrap_or(gwi_ref);
                    for (name, got) in [("g_glshwi()", gsh_lib.map(|v| v as f64)), ("props.g_glshwi", Some(props.g_glshwi as f64))] {
                        match got {
                            Some(v) if close(v, gsh_ref, TOL) => {}
                            other => obs.violation(&format!("wincons-gglshwi:{}", name), format!("{} = {:?}, expected {:.4} (user value {:?})", name, other, gsh_ref, user_sh), ctx()),
                        }
                    }
                    if !sampled {
                        sampled = true;
                        obs.sample(json!({"f_f": wc.f_f, "delta_u": wc.delta_u, "U_glass": g.u_value, "U_frame": f.u_value, "g_gln": g.g_gln, "g_glshwi_user": wc.g_glshwi, "reported_U": u_lib, "reference_U": u_ref, "reported_g_glwi": props.g_glwi, "reported_g_glshwi": props.g_glshwi}));
                    }
                }
                (g, f) => {
                    obs.nontrivial_str(&format!("unresolved{:?}{:?}{:?}", g.is_some(), f.is_some(), (wc.f_f.to_bits(), wc.g_glshwi.map(f32::to_bits))));
                    if g.is_none() {
                        obs.count("glass_missing");
                    }
                    if f.is_none() {
                        obs.count("frame_missing");
                    }
                    if u_lib.is_some() || props.u_value.is_some() {
                        obs.violation("wincons-u-without-glass-or-frame", format!("U reported ({:?} / {:?}) although glazing or frame does not resolve", u_lib, props.u_value), ctx());
                    }
                    // solar factor defaults
                    let gwi_ok: Vec<f64> = match g {
                        None => vec![0.77],
                        Some(g) => vec![0.77, 0.90 * g.g_gln as f64],
                    };
                    if !gwi_ok.iter().any(|r| close(props.g_glwi as f64, *r, TOL)) {
                        obs.violation("wincons-default-gglwi", format!("props.g_glwi = {} for unresolved construction, expected one of {:?}", props.g_glwi, gwi_ok), ctx());
                    }
                    let gsh_ok: Vec<f64> = match user_sh {
                        Some(u) => vec![u],
                        None => gwi_ok.clone(),
                    };
                    if !gsh_ok.iter().any(|r| close(props.g_glshwi as f64, *r, TOL)) {
                        obs.violation("wincons-default-gglshwi", format!("props.g_glshwi = {} for unresolved construction, expected one of {:?}", props.g_glshwi, gsh_ok), ctx());
                    }
                    if g.is_none() && gwi_lib.is_some() {
                        obs.violation("wincons-gglwi-without-glass", format!("g_glwi() = {:?} without glazing", gwi_lib), ctx());
                    }
                }
            }
        }
        // downstream: K's window block is the area weighted mean of (U or 5.7)
        let mut au = 0.0f64;
        let mut umax = f64::MIN;
        let mut umin = f64::MAX;
        for w in &model.windows {
            let u = ind.props.wincons.get(&w.cons).and_then(|c| c.u_value).map(|u| u as f64).unwrap_or(5.7);
            au += u;
            umax = umax.max(u);
            umin = umin.min(u);
        }
        let k = &ind.K_data.windows;
        let n = model.windows.len() as f64;
        if !(close(k.a as f64, n, 1e-3 * n) && close(k.au as f64, au, 1e-3 * au) && k.u_max.map_or(false, |v| close(v as f64, umax, 1e-4)) && k.u_min.map_or(false, |v| close(v as f64, umin, 1e-4))) {
            obs.violation(
                "k-window-block",
                format!("K_data.windows = {:?}; expected a={} au={:.3} u_max={:.3} u_min={:.3}", k, n, au, umax, umin),
                json!({"n_windows": n}),
            );
        }
    }

    /// one window whose construction is unresolved in some way: 5.7 must show in K
    fn single(&self, rng: &mut Rng, obs: &mut Obs) {
        let mut db = gen_cons(rng, 1, 1);
        let mode = rng.usize(4);
        let cons_id = match mode {
            0 => Uuid::nil(),
            1 => uuid(rng),
            2 => {
                db.wincons[0].glass = if rng.chance(0.5) { Uuid::nil() } else { uuid(rng) };
                db.wincons[0].id
            }
            _ => {
                db.wincons[0].frame = if rng.chance(0.5) { Uuid::nil() } else { uuid(rng) };
                db.wincons[0].id
            }
        };
        let model = mini_model(rng, db, &[cons_id], false);
        obs.eval();
        obs.nontrivial_str(&format!("single{}{}", mode, cons_id));
        let ind = match guard(|| model.energy_indicators()) {
            Ok(i) => i,
            Err(p) => {
                obs.panic_violation(&p, json!({"where": "energy_indicators, one window with unresolved construction", "mode": mode}));
                return;
            }
        };
        let k = &ind.K_data.windows;
        let ok = k.u_max.map_or(false, |v| close(v as f64, 5.7, 1e-4)) && k.u_min.map_or(false, |v| close(v as f64, 5.7, 1e-4)) && close(k.au as f64, 5.7 * k.a as f64, 1e-3);
        if ok {
            obs.count("k_default_5_7");
        } else {
            obs.violation("k-default-u-5.7", format!("window with unresolved construction (mode {}): K_data.windows = {:?}, expected U = 5.7", mode, k), json!({"mode": mode}));
        }
        let mode_name = ["nil construction", "dangling construction", "glazing missing", "frame missing"][mode];
        obs.sample(json!({"mode": mode_name, "K_data.windows": format!("{:?}", k)}));
    }
}
