//! C12 Obstruction factors are bounded, monotone and ~1 for unobstructed windows

use std::collections::BTreeMap;

use bemodel::climatedata::{CLIMATEMETADATA, JULYRADDATA};
use bemodel::{BoundaryType, Model, Point2, Point3, Shade, Uuid, WallGeom};
use climate::SolarRadiation;
use serde_json::{json, Value};

use crate::convert::{convert_path, real_project_files, Conv};
use crate::core::{Case, Obs, Property, Tier};
use crate::gen::model::{gen_model, load_model, uuid, zone, GenCfg, ZONES};
use crate::oracle::geom::{dot, normal_of, obstacles, sun_vector, sunlit_share, Obstacle, V3};
use crate::panicx::guard;
use crate::rng::Rng;

pub struct C12;

const MONTH_DAYS: [u32; 12] = [31, 28, 31, 30, 31, 30, 31, 31, 30, 31, 30, 31];

struct Hour {
    sun: V3,
    nday: u32,
    hour: f32,
    dir: f32,
    dif: f32,
}

fn july_hours(zone_name: &str) -> Option<(f32, Vec<Hour>)> {
    let z = zone(zone_name);
    let lat = CLIMATEMETADATA.lock().unwrap_or_else(|e| e.into_inner()).get(&z)?.latitude;
    let t = JULYRADDATA.lock().unwrap_or_else(|e| e.into_inner());
    let rows = t.get(&z)?;
    let hours = rows
        .iter()
        .map(|d| Hour {
            sun: sun_vector(d.azimuth as f64, d.altitude as f64),
            nday: MONTH_DAYS[..(d.month as usize - 1).min(11)].iter().sum::<u32>() + d.day,
            hour: d.hour,
            dir: d.dir,
            dif: d.dif,
        })
        .collect();
    Some((lat, hours))
}

pub struct WinRef {
    pub f: f64,
    pub slack: f64,
    pub min_sunlit: f64,
    pub any_sun_in_front: bool,
}

/// reference obstruction factors of all windows of a model
pub fn reference(m: &Model, obs_list: &[Obstacle]) -> BTreeMap<Uuid, WinRef> {
    let mut out = BTreeMap::new();
    let zname = format!("{}", m.meta.climate);
    let (lat, hours) = match july_hours(&zname) {
        Some(x) => x,
        None => return out,
    };
    for win in &m.windows {
        let wall = match m.walls.iter().find(|w| w.id == win.wall) {
            Some(w) => w,
            None => continue,
        };
        let origins: Vec<V3> = m.ray_origins_for_window(win).iter().map(|p| [p.x as f64, p.y as f64, p.z as f64]).collect();
        let n = normal_of(&wall.geometry);
        let cands: Vec<&Obstacle> = obs_list.iter().filter(|o| o.id != wall.id && (o.linked.is_none() || o.linked == Some(win.id))).collect();
        let no_geometry = wall.geometry.position.is_none() || origins.is_empty();
        let (mut sum, mut slack, mut min_s) = (0.0, 0.0, 1.0f64);
        let mut any_front = false;
        for h in &hours {
            let rad = climate::radiation_for_surface(h.nday, h.hour, SolarRadiation { dir: h.dir, dif: h.dif }, lat, wall.geometry.tilt, wall.geometry.azimuth, 0.2);
            let (s, a) = if no_geometry {
                (1.0, 0.0)
            } else if dot(n, h.sun) < 0.01 {
                (0.0, if (dot(n, h.sun) - 0.01).abs() < 1e-4 { 1.0 } else { 0.0 })
            } else {
                any_front = true;
                sunlit_share(&origins, h.sun, &cands)
            };
            min_s = min_s.min(s);
            let (d, f) = (rad.dir as f64, rad.dif as f64);
            let tot = d + f;
            if tot.abs() > 1e-9 {
                sum += (s * d + f) / tot;
                slack += a * d.abs() / tot.abs();
            } else {
                sum += f64::NAN;
            }
        }
        let k = hours.len() as f64;
        out.insert(win.id, WinRef { f: sum / k, slack: slack / k, min_sunlit: min_s, any_sun_in_front: any_front });
    }
    out
}

fn box_shades(rng: &mut Rng, centre: V3, half: f64) -> Vec<Shade> {
    // five faces of a box around `centre` are not needed: one large plane per compass side and a lid
    let mut v = vec![];
    let mk = |rng: &mut Rng, pos: [f64; 3], tilt: f32, az: f32, w: f64, h: f64| Shade {
        id: uuid(rng),
        name: "box".into(),
        geometry: WallGeom { tilt, azimuth: az, position: Some(Point3::new(pos[0] as f32, pos[1] as f32, pos[2] as f32)), polygon: vec![Point2::new(0.0, 0.0), Point2::new(w as f32, 0.0), Point2::new(w as f32, h as f32), Point2::new(0.0, h as f32)] },
    };
    let (cx, cy, cz) = (centre[0], centre[1], centre[2]);
    let s = 2.0 * half;
    // south, east, north, west faces (normals outward), lid
    v.push(mk(rng, [cx - half, cy - half, cz - half], 90.0, 0.0, s, s));
    v.push(mk(rng, [cx + half, cy - half, cz - half], 90.0, 90.0, s, s));
    v.push(mk(rng, [cx + half, cy + half, cz - half], 90.0, 180.0, s, s));
    v.push(mk(rng, [cx - half, cy + half, cz - half], 90.0, -90.0, s, s));
    v.push(mk(rng, [cx - half, cy - half, cz + half], 0.0, 0.0, s, s));
    v
}

impl C12 {
    fn check(&self, m: &Model, origin: &str, obs: &mut Obs) -> Option<BTreeMap<Uuid, f32>> {
        obs.eval();
        let before = bemodel::energy::verif_bvh_stats();
        let got = match guard(|| m.compute_fshobst()) {
            Ok(g) => g,
            Err(p) => {
                obs.panic_violation(&p, json!({"where": "Model::compute_fshobst", "origin": origin}));
                return None;
            }
        };
        let after = bemodel::energy::verif_bvh_stats();
        obs.add("bvh_builds_empty", after[0] - before[0]);
        obs.add("bvh_builds_single_leaf(<=30 obstacles)", after[1] - before[1]);
        obs.add("bvh_builds_partitioned(>30 obstacles)", after[2] - before[2]);
        obs.add("bvh_unsplittable_leaves", after[4] - before[4]);
        let obst = obstacles(m);
        let refs = reference(m, &obst);
        for win in &m.windows {
            if m.windows.iter().filter(|w| w.id == win.id).count() != 1 {
                continue;
            }
            let wall = match m.walls.iter().find(|w| w.id == win.wall) {
                Some(w) => w,
                None => continue,
            };
            let g = match got.get(&win.id) {
                Some(g) => *g as f64,
                None => {
                    obs.violation("fshobst-missing", format!("{}: no factor for window {}", origin, win.name), json!({}));
                    continue;
                }
            };
            let r = match refs.get(&win.id) {
                Some(r) => r,
                None => continue,
            };
            obs.count("windows_compared");
            let ctx = || {
                json!({"origin": origin, "window": format!("{:?}", win), "wall_geometry": format!("{:?}", wall.geometry), "zone": format!("{}", m.meta.climate), "reported": g, "reference": r.f, "ambiguous_ray_slack": r.slack,
                "n_obstacles": obst.len(), "model_json": m.as_json().ok().filter(|j| j.len() < 40000)})
            };
            if !(g.is_finite() && (-1e-6..=1.0 + 1e-6).contains(&g)) {
                obs.violation("fshobst-out-of-range", format!("{}: window {} factor {}", origin, win.name, g), ctx());
                continue;
            }
            if !r.f.is_finite() {
                obs.ambiguous("reference undefined (no irradiance on the plane)");
                continue;
            }
            let class = if wall.geometry.position.is_none() || win.geometry.position.is_none() {
                "no-position"
            } else if win.geometry.setback.abs() >= 0.01 {
                match crate::oracle::mref::tilt_class(wall.geometry.tilt) {
                    crate::oracle::mref::TiltC::Side => "setback-on-wall",
                    _ => "setback-on-roof-or-floor",
                }
            } else {
                match crate::oracle::mref::tilt_class(wall.geometry.tilt) {
                    crate::oracle::mref::TiltC::Side => "flush-on-wall",
                    _ => "flush-on-roof-or-floor",
                }
            };
            obs.count(&format!("window_class:{}", class));
            if r.f < 0.995 {
                obs.count("windows_with_some_obstruction");
                obs.nontrivial(crate::rng::fnv64(format!("{}{}{}", origin, win.id, r.f).as_bytes()));
            }
            if (g - r.f).abs() > 0.0051 + r.slack + 1e-4 {
                obs.violation(
                    &format!("fshobst-value:{}", class),
                    format!("{}: window {} reports F_sh;obst = {} but the exact reference is {:.4} (slack {:.4}, {} obstacles)", origin, win.name, g, r.f, r.slack, obst.len()),
                    ctx(),
                );
            }
            if obs.samples.len() < 3 && r.f < 0.95 {
                obs.sample(json!({"origin": origin, "window": win.name, "class": class, "reported": g, "reference": r.f, "obstacles": obst.len(), "sample_points": m.ray_origins_for_window(win).len()}));
            }
        }
        Some(got)
    }

    fn gen(&self, rng: &mut Rng, large: bool) -> Model {
        let mut cfg = GenCfg::geometric();
        cfg.p_window = 0.6;
        cfg.p_setback = 0.5;
        cfg.overrides = false;
        cfg.unused = false;
        cfg.schedules = false;
        if large {
            cfg.nx = (2, 4);
            cfg.ny = (2, 3);
            cfg.nfloors = (2, 4);
            cfg.shades = (5, 30);
        } else {
            cfg.nx = (1, 2);
            cfg.ny = (1, 2);
            cfg.nfloors = (1, 2);
            cfg.shades = (0, 4);
        }
        let mut m = gen_model(rng, &cfg).model;
        // a few elements without geometric position (factor must be 1)
        for w in m.windows.iter_mut() {
            if rng.chance(0.03) {
                w.geometry.position = None;
            }
        }
        for w in m.walls.iter_mut() {
            if rng.chance(0.02) {
                w.geometry.position = None;
            }
        }
        // the same surfaces with a redundant vertex on an edge (often the first one) or listed from another corner
        crate::gen::model::vary_outlines(rng, &mut m, 0.2);
        // pitched roofs / tilted walls with set-back windows: turn some roofs' tilt (geometry stays planar)
        for w in m.walls.iter_mut() {
            if w.bounds == BoundaryType::EXTERIOR && w.geometry.tilt == 0.0 && rng.chance(0.3) {
                w.geometry.tilt = *rng.pick(&[15.0f32, 30.0, 45.0]);
                w.geometry.azimuth = *rng.pick(&[0.0f32, 90.0, -90.0, 180.0, 37.0]);
            }
        }
        m
    }
}

impl Property for C12 {
    fn id(&self) -> &'static str {
        "C12"
    }
    fn rule(&self) -> String {
        "generated buildings (grid buildings with absent cells = non-convex, turned; small = 1..30 obstacles, large = 31..400; random shades; windows flush and set back, on walls, flat and pitched roofs; a fifth of the outlines with a redundant vertex on an edge (so that they may start with three collinear points) or listed from another corner; elements with and without position) x climate zones, and real/shipped models; every window's reported f_shobst is compared with the mean over the July table hours of (s*beam+diffuse)/(beam+diffuse), s computed by an exact f64 ray/polygon test of the implementation's own sample points against every exterior/adiabatic wall, every shade and the window's own four reveal quads built from first principles; metamorphic: adding a wall or shade never raises any factor; enclosed window = diffuse share; unobstructed window >= 0.97; non-trivial = distinct window whose reference factor is below 0.995".into()
    }
    fn assumptions(&self) -> Vec<String> {
        vec![
            "plane irradiances come from climate::radiation_for_surface (judged by C20)".into(),
            "sample points are the implementation's own (Model::ray_origins_for_window), as the statement speaks of 'the window's sample points'".into(),
            "rays within 1 mm of an outline / grazing are ambiguous and widen the tolerance by their irradiance-weighted share".into(),
        ]
    }
    fn workloads(&self, tier: Tier) -> Vec<(String, u64)> {
        vec![
            ("real".into(), (crate::corpus::model_json_files().len() + real_project_files().len()) as u64),
            ("small".into(), tier.pick(480, 6000)),
            ("large".into(), tier.pick(150, 2000)),
            ("monotone".into(), tier.pick(210, 3000)),
            ("enclosed".into(), tier.pick(120, 1000)),
            ("unobstructed".into(), tier.pick(120, 1000)),
        ]
    }
    fn required(&self, tier: Tier) -> Vec<(String, u64)> {
        vec![
            ("windows_compared".into(), tier.pick(1500, 50_000)),
            ("windows_with_some_obstruction".into(), tier.pick(300, 10_000)),
            ("bvh_builds_single_leaf(<=30 obstacles)".into(), 500),
            ("bvh_builds_partitioned(>30 obstacles)".into(), 500),
            ("window_class:setback-on-wall".into(), 100),
            ("window_class:setback-on-roof-or-floor".into(), 20),
            ("window_class:no-position".into(), 5),
            ("monotone_pairs".into(), 100),
            ("enclosed_windows".into(), 20),
        ]
    }
    fn time_cap_s(&self, tier: Tier) -> u64 {
        tier.pick(170, 2700)
    }
    fn run_case(&self, case: &Case, obs: &mut Obs) {
        let mut rng = case.rng();
        match case.kind {
            "real" => {
                let js = crate::corpus::model_json_files();
                let idx = case.index as usize;
                let (name, m) = if idx < js.len() {
                    match load_model(&js[idx]) {
                        Some(m) => (js[idx].file_name().unwrap().to_string_lossy().to_string(), m),
                        None => return,
                    }
                } else {
                    let files = real_project_files();
                    let f = &files[idx - js.len()];
                    match convert_path(f) {
                        Conv::Ok(m) => (f.file_name().unwrap().to_string_lossy().to_string(), m),
                        _ => return,
                    }
                };
                if m.windows.len() > 120 {
                    obs.count("real_models_skipped_for_size(see thorough)");
                    if case.tier == Tier::Quick {
                        return;
                    }
                }
                obs.count("real_models");
                let base = self.check(&m, &name, obs);
                // one random extra obstacle: no factor may rise
                if let Some(base) = base {
                    let mut m2 = m.clone();
                    let c = m.walls.iter().filter_map(|w| w.geometry.position).next().unwrap_or(Point3::new(0.0, 0.0, 0.0));
                    m2.shades.push(Shade {
                        id: uuid(&mut rng),
                        name: "extra".into(),
                        geometry: WallGeom {
                            tilt: 90.0,
                            azimuth: rng.dec(-180.0, 180.0, 0) as f32,
                            position: Some(Point3::new(c.x + rng.dec(-15.0, 15.0, 1) as f32, c.y + rng.dec(-15.0, 15.0, 1) as f32, c.z)),
                            polygon: vec![Point2::new(0.0, 0.0), Point2::new(20.0, 0.0), Point2::new(20.0, 15.0), Point2::new(0.0, 15.0)],
                        },
                    });
                    self.monotone_pair(&m, &m2, &base, &name, obs);
                }
            }
            "small" | "large" => {
                let mut m = self.gen(&mut rng, case.kind == "large");
                m.meta.climate = zone(ZONES[(case.index % 32) as usize]);
                self.check(&m, &format!("{}#{}", case.kind, case.index), obs);
            }
            "monotone" => {
                let large = rng.chance(0.4);
                let m = self.gen(&mut rng, large);
                let base = match guard(|| m.compute_fshobst()) {
                    Ok(b) => b,
                    Err(p) => {
                        obs.panic_violation(&p, json!({"where": "compute_fshobst"}));
                        return;
                    }
                };
                obs.eval();
                let mut m2 = m.clone();
                // add a wall or a shade
                let c = m.walls.iter().filter_map(|w| w.geometry.position).next().unwrap_or(Point3::new(0.0, 0.0, 0.0));
                let geom = WallGeom {
                    tilt: *rng.pick(&[90.0f32, 90.0, 0.0, 60.0]),
                    azimuth: rng.dec(-180.0, 180.0, 0) as f32,
                    position: Some(Point3::new(c.x + rng.dec(-12.0, 12.0, 1) as f32, c.y + rng.dec(-12.0, 12.0, 1) as f32, c.z + rng.dec(0.0, 6.0, 1) as f32)),
                    polygon: vec![Point2::new(0.0, 0.0), Point2::new(rng.dec(1.0, 25.0, 1) as f32, 0.0), Point2::new(rng.dec(1.0, 25.0, 1) as f32, rng.dec(1.0, 15.0, 1) as f32), Point2::new(0.0, rng.dec(1.0, 15.0, 1) as f32)],
                };
                if rng.chance(0.5) && !m.spaces.is_empty() {
                    m2.walls.push(bemodel::Wall { id: uuid(&mut rng), name: "added".into(), bounds: if rng.chance(0.5) { BoundaryType::EXTERIOR } else { BoundaryType::ADIABATIC }, cons: Uuid::nil(), space: m.spaces[0].id, next_to: None, geometry: geom });
                } else {
                    m2.shades.push(Shade { id: uuid(&mut rng), name: "added".into(), geometry: geom });
                }
                self.monotone_pair(&m, &m2, &base, &format!("monotone#{}", case.index), obs);
            }
            "enclosed" => {
                // a single window inside a closed box of shades: only the diffuse share arrives
                let mut m = self.gen(&mut rng, false);
                m.meta.climate = zone(ZONES[(case.index % 32) as usize]);
                let wid = match m.windows.iter().find(|w| w.geometry.position.is_some() && m.walls.iter().any(|wl| wl.id == w.wall && wl.geometry.position.is_some())) {
                    Some(w) => w.id,
                    None => return,
                };
                let win = m.windows.iter().find(|w| w.id == wid).unwrap().clone();
                let o = m.ray_origins_for_window(&win);
                if o.is_empty() {
                    return;
                }
                let c = o.iter().fold([0.0f64; 3], |a, p| [a[0] + p.x as f64, a[1] + p.y as f64, a[2] + p.z as f64]);
                let c = [c[0] / o.len() as f64, c[1] / o.len() as f64, c[2] / o.len() as f64];
                let half = 3.0 + win.geometry.width.max(win.geometry.height) as f64;
                m.shades.extend(box_shades(&mut rng, c, half));
                // floor of the box
                m.shades.push(Shade {
                    id: uuid(&mut rng),
                    name: "boxfloor".into(),
                    geometry: WallGeom { tilt: 0.0, azimuth: 0.0, position: Some(Point3::new((c[0] - half) as f32, (c[1] - half) as f32, (c[2] - half) as f32)), polygon: vec![Point2::new(0.0, 0.0), Point2::new(2.0 * half as f32, 0.0), Point2::new(2.0 * half as f32, 2.0 * half as f32), Point2::new(0.0, 2.0 * half as f32)] },
                });
                obs.eval();
                let got = match guard(|| m.compute_fshobst()) {
                    Ok(g) => g,
                    Err(p) => {
                        obs.panic_violation(&p, json!({"where": "compute_fshobst (enclosed)"}));
                        return;
                    }
                };
                let obst = obstacles(&m);
                let refs = reference(&m, &obst);
                if let (Some(g), Some(r)) = (got.get(&wid), refs.get(&wid)) {
                    if r.min_sunlit == 0.0 && r.slack == 0.0 {
                        // hidden at every hour (the exact oracle confirms it): the factor is the diffuse share
                        let wall = m.walls.iter().find(|w| w.id == win.wall).unwrap();
                        let (lat, hours) = july_hours(&format!("{}", m.meta.climate)).unwrap();
                        let mut s = 0.0;
                        let mut all_hidden = true;
                        for h in &hours {
                            let rad = climate::radiation_for_surface(h.nday, h.hour, SolarRadiation { dir: h.dir, dif: h.dif }, lat, wall.geometry.tilt, wall.geometry.azimuth, 0.2);
                            s += rad.dif as f64 / (rad.dir as f64 + rad.dif as f64);
                            let _ = &mut all_hidden;
                        }
                        let want = s / hours.len() as f64;
                        // only when the window is hidden at EVERY hour (sunlit share 0 whenever the sun is in front)
                        let hidden_every_hour = (r.f - want).abs() < 1e-9;
                        if hidden_every_hour {
                            obs.count("enclosed_windows");
                            obs.nontrivial(crate::rng::fnv64(format!("enclosed{}{}", case.index, want).as_bytes()));
                            if (*g as f64 - want).abs() > 0.0051 {
                                obs.violation("fshobst-enclosed-window-not-diffuse-share", format!("enclosed#{}: hidden window reports {} but the diffuse share is {:.4}", case.index, g, want), json!({"model_json": m.as_json().ok()}));
                            }
                        }
                    }
                }
            }
            _ => {
                // one wall, one flush window, nothing else: at least 0.97
                let mut m = self.gen(&mut rng, false);
                m.meta.climate = zone(ZONES[(case.index % 32) as usize]);
                let wid = match m.windows.iter().find(|w| w.geometry.position.is_some() && m.walls.iter().any(|wl| wl.id == w.wall && wl.geometry.position.is_some())) {
                    Some(w) => w.id,
                    None => return,
                };
                let wall_id = m.windows.iter().find(|w| w.id == wid).unwrap().wall;
                m.windows.retain(|w| w.id == wid);
                m.walls.retain(|w| w.id == wall_id);
                m.shades.clear();
                m.windows[0].geometry.setback = 0.0;
                obs.eval();
                match guard(|| m.compute_fshobst()) {
                    Ok(g) => {
                        obs.count("unobstructed_windows");
                        obs.nontrivial(crate::rng::fnv64(format!("unob{}", case.index).as_bytes()));
                        let v = g.get(&wid).copied().unwrap_or(f32::NAN);
                        if !(v >= 0.97) {
                            obs.violation("fshobst-unobstructed-window-below-0.97", format!("unobstructed#{}: a window nothing can hide reports {}", case.index, v), json!({"model_json": m.as_json().ok()}));
                        }
                    }
                    Err(p) => obs.panic_violation(&p, json!({"where": "compute_fshobst (single wall, single window)", "model_json": m.as_json().ok()})),
                }
            }
        }
    }
    fn extra_evidence(&self, agg: &Obs) -> Value {
        json!({"bvh_paths_driven": {
            "empty": agg.counters.get("bvh_builds_empty"),
            "single_leaf": agg.counters.get("bvh_builds_single_leaf(<=30 obstacles)"),
            "partitioned": agg.counters.get("bvh_builds_partitioned(>30 obstacles)"),
        }})
    }
}

impl C12 {
    fn monotone_pair(&self, m: &Model, m2: &Model, base: &BTreeMap<Uuid, f32>, origin: &str, obs: &mut Obs) {
        obs.eval();
        let after = match guard(|| m2.compute_fshobst()) {
            Ok(b) => b,
            Err(p) => {
                obs.panic_violation(&p, json!({"where": "compute_fshobst (after adding an obstacle)", "origin": origin}));
                return;
            }
        };
        let refs = reference(m2, &obstacles(m2));
        for w in &m.windows {
            if let (Some(a), Some(b)) = (base.get(&w.id), after.get(&w.id)) {
                obs.count("monotone_pairs");
                let slack = refs.get(&w.id).map_or(0.0, |r| r.slack);
                if (*b as f64) > (*a as f64) + 1e-6 + if slack > 0.0 { 0.0101 } else { 0.0 } {
                    obs.violation(
                        "fshobst-rises-when-an-obstacle-is-added",
                        format!("{}: window {} had {} and has {} after adding one obstacle", origin, w.name, a, b),
                        json!({"model_before": m.as_json().ok().filter(|j| j.len() < 40000), "added": format!("{:?} / {:?}", m2.shades.last().map(|s| &s.geometry), m2.walls.last().map(|s| &s.geometry))}),
                    );
                }
            }
        }
    }
}
