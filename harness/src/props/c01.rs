//! C01 Export tool writes exactly the model JSON to standard output

use std::path::{Path, PathBuf};
use std::process::{Command, Stdio};

use bemodel::Model;
use serde_json::{json, Value};

use crate::core::{Case, Obs, Property, Tier};
use crate::gen::bdl::{edge_numbers, gen_building, print_blocks, BuildCfg, Layout};
use crate::panicx::guard;
use crate::props::c04::debug_text;
use crate::rng::Rng;

pub struct C01;

fn bin_dir(release: bool) -> PathBuf {
    PathBuf::from(crate::core::verif_dir()).join("target").join("repo").join(if release { "release" } else { "debug" })
}

struct Run {
    code: Option<i32>,
    stdout: Vec<u8>,
    stderr: Vec<u8>,
}

fn run(bin: &Path, args: &[&str], rust_log: Option<&str>) -> Option<Run> {
    let mut c = Command::new(bin);
    c.args(args).stdin(Stdio::null());
    match rust_log {
        Some(l) => {
            c.env("RUST_LOG", l);
        }
        None => {
            c.env_remove("RUST_LOG");
        }
    }
    let out = c.output().ok()?;
    Some(Run { code: out.status.code(), stdout: out.stdout, stderr: out.stderr })
}

/// Is `bytes` exactly one JSON document (then only whitespace)?
fn single_json_document(bytes: &[u8]) -> Result<Value, String> {
    let text = std::str::from_utf8(bytes).map_err(|e| format!("stdout is not UTF-8: {}", e))?;
    let mut st = serde_json::Deserializer::from_str(text).into_iter::<Value>();
    let first = match st.next() {
        Some(Ok(v)) => v,
        Some(Err(e)) => return Err(format!("stdout does not start with a JSON document: {} (stdout begins with {:?})", e, text.chars().take(80).collect::<String>())),
        None => return Err("stdout is empty".into()),
    };
    let rest = &text[st.byte_offset()..];
    if !rest.trim().is_empty() {
        return Err(format!("{} bytes follow the JSON document on stdout, beginning with {:?}", rest.len(), rest.trim().chars().take(80).collect::<String>()));
    }
    Ok(first)
}

/// Does any position of `bytes` start a JSON object or array?
fn contains_json_document(bytes: &[u8]) -> Option<usize> {
    let text = String::from_utf8_lossy(bytes).to_string();
    for (i, c) in text.char_indices() {
        if c == '{' || c == '[' {
            let mut st = serde_json::Deserializer::from_str(&text[i..]).into_iter::<Value>();
            if let Some(Ok(v)) = st.next() {
                if (v.is_object() && !v.as_object().unwrap().is_empty()) || (v.is_array() && !v.as_array().unwrap().is_empty()) {
                    return Some(i);
                }
            }
        }
    }
    None
}

fn scratch_dir(tag: &str) -> PathBuf {
    let d = crate::core::tmp_dir().join(format!("c01.{}.{}", std::process::id(), tag));
    let _ = std::fs::remove_dir_all(&d);
    let _ = std::fs::create_dir_all(&d);
    d
}

impl C01 {
    /// the library, in process, with fd 1 watched
    fn library_model(&self, dir: &str, extra: bool, obs: &mut Obs) -> Option<Model> {
        let before = crate::fdcap::stdout_bytes();
        let r = guard(|| hulc2model::collect_hulc_data(dir, extra, extra));
        let after = crate::fdcap::stdout_bytes();
        obs.count("library_calls_with_stdout_watched");
        if after != before {
            obs.violation(
                "library-writes-to-stdout",
                format!("collect_hulc_data({}, {}) wrote {} bytes to standard output, beginning with {:?}", dir, extra, after - before, crate::fdcap::stdout_slice(before, 80)),
                json!({"dir": dir}),
            );
            crate::fdcap::reset();
        }
        match r {
            Ok(Ok(m)) => Some(m),
            Ok(Err(_)) => None,
            Err(p) => {
                obs.panic_violation(&p, json!({"where": "collect_hulc_data", "dir": dir, "use_extra": extra}));
                None
            }
        }
    }

    fn export_case(&self, dir: &Path, origin: &str, extra: bool, rust_log: Option<&str>, release: bool, obs: &mut Obs) {
        let d = dir.to_string_lossy().to_string();
        let lib = match self.library_model(&d, extra, obs) {
            Some(m) => m,
            None => {
                // with the option that reads HULC's result files: a directory that converts without the option and whose
                // result files are absent or well-formed (all the harness writes) is still a directory the library can convert
                if extra && self.library_model(&d, false, obs).is_some() {
                    let bin = bin_dir(release).join("hulc2model");
                    let code = run(&bin, &["--use-extra", &d], rust_log).and_then(|r| r.code);
                    let has_kyg = dir.join("KyGananciasSolares.txt").exists();
                    let has_tbl = dir.join("NewBDL_O.tbl").exists();
                    obs.violation(
                        "use-extra-fails-on-a-directory-that-converts",
                        format!("{}: collect_hulc_data(dir, true, true) fails although the project converts without the option (KyGananciasSolares.txt {}, NewBDL_O.tbl {}); hulc2model --use-extra exits with {:?}", origin, if has_kyg { "present" } else { "absent" }, if has_tbl { "present" } else { "absent" }, code),
                        json!({"project": origin, "exit": code}),
                    );
                    return;
                }
                obs.count("directory_the_library_cannot_convert");
                return;
            }
        };
        let bin = bin_dir(release).join("hulc2model");
        let mut args: Vec<&str> = vec![];
        if extra {
            args.push("--use-extra");
        }
        args.push(&d);
        obs.eval();
        let r = match run(&bin, &args, rust_log) {
            Some(r) => r,
            None => {
                obs.harness_error(format!("cannot run {}", bin.display()));
                return;
            }
        };
        obs.count(if extra { "hulc2model:--use-extra" } else { "hulc2model:default" });
        obs.count(&format!("rust_log:{}", rust_log.unwrap_or("unset")));
        obs.nontrivial(crate::rng::fnv64(format!("{}{}{:?}{}", origin, extra, rust_log, release).as_bytes()));
        let ctx = || json!({"project": origin, "use_extra": extra, "RUST_LOG": rust_log, "profile": if release { "release" } else { "dev" }, "stderr_tail": String::from_utf8_lossy(&r.stderr).chars().rev().take(300).collect::<String>().chars().rev().collect::<String>()});
        if r.code != Some(0) {
            obs.violation("export-exit-status", format!("{}: hulc2model exits with {:?} on a directory the library converts", origin, r.code), ctx());
            return;
        }
        let v = match single_json_document(&r.stdout) {
            Ok(v) => v,
            Err(e) => {
                obs.violation("stdout-is-not-exactly-one-json-document", format!("{}: {}", origin, e), ctx());
                return;
            }
        };
        let m = match Model::from_json(&v.to_string()) {
            Ok(m) => m,
            Err(e) => {
                obs.violation("stdout-json-does-not-load-as-model", format!("{}: {}", origin, e), ctx());
                return;
            }
        };
        // equal in every field to the library's model
        let (a, b) = (debug_text(&m), debug_text(&lib));
        if a != b {
            let pos = a.bytes().zip(b.bytes()).position(|(x, y)| x != y).unwrap_or(a.len().min(b.len()));
            let field = b[..pos.min(b.len())].rsplit(|c: char| c == ' ' || c == '{' || c == '(' || c == ',').find(|t| t.ends_with(':')).unwrap_or("?").trim_end_matches(':').to_string();
            obs.violation(
                &format!("exported-model-differs-from-library-model:{}", field),
                format!("{} ({}): the model loaded from stdout differs from collect_hulc_data near `{}`: stdout has …{}… library has …{}…", origin, if extra { "--use-extra" } else { "default" }, field, a.chars().skip(pos.saturating_sub(40)).take(120).collect::<String>(), b.chars().skip(pos.saturating_sub(40)).take(120).collect::<String>()),
                ctx(),
            );
        }
        if r.stdout.len() < 8192 {
            obs.count("exports_smaller_than_8_KiB");
        }
        if !lib.overrides.walls.is_empty() != !lib.overrides.windows.is_empty() {
            obs.count("models_with_one_sided_overrides");
        }
        if obs.samples.len() < 3 {
            obs.sample(json!({"project": origin, "use_extra": extra, "RUST_LOG": rust_log, "stdout_bytes": r.stdout.len(), "stderr_bytes": r.stderr.len(), "exit": r.code}));
        }
    }

    fn thor_case(&self, file: &Path, origin: &str, release: bool, obs: &mut Obs) {
        let out = scratch_dir("thor").join("model.json");
        let bin = bin_dir(release).join("thor");
        let (f, o) = (file.to_string_lossy().to_string(), out.to_string_lossy().to_string());
        let before = crate::fdcap::stdout_bytes();
        let lib = guard(|| hulc::ctehexml::parse_with_catalog_from_path(file).and_then(|d| <Model as std::convert::TryFrom<&hulc::ctehexml::CtehexmlData>>::try_from(&d)));
        let after = crate::fdcap::stdout_bytes();
        if after != before {
            obs.violation("library-writes-to-stdout", format!("parse_with_catalog_from_path / try_from wrote {} bytes to standard output: {:?}", after - before, crate::fdcap::stdout_slice(before, 80)), json!({"file": f}));
            crate::fdcap::reset();
        }
        let lib = match lib {
            Ok(Ok(m)) => m,
            _ => return,
        };
        obs.eval();
        // half of the runs: the -o file exists already and is longer than the model (an earlier export of a larger project)
        if crate::rng::fnv64(origin.as_bytes()) % 2 == 0 {
            let _ = std::fs::write(&out, format!("{{\"earlier\": \"{}\"}}\n", "x".repeat(400_000)));
            obs.count("thor:-o onto an existing longer file");
        }
        let r = match run(&bin, &[&f, "-o", &o], None) {
            Some(r) => r,
            None => {
                obs.harness_error(format!("cannot run {}", bin.display()));
                return;
            }
        };
        obs.count("thor:-o");
        obs.nontrivial(crate::rng::fnv64(format!("thor{}{}", origin, release).as_bytes()));
        let text = std::fs::read_to_string(&out).ok();
        let _ = std::fs::remove_dir_all(out.parent().unwrap());
        if r.code != Some(0) {
            obs.violation("thor-exit-status", format!("{}: thor exits with {:?}", origin, r.code), json!({"stderr": String::from_utf8_lossy(&r.stderr).chars().take(300).collect::<String>()}));
            return;
        }
        // what thor prints to its own stdout is not part of the property (only the -o file is); recorded, not judged
        if !r.stdout.is_empty() {
            obs.count("thor_runs_with_stdout_output");
        }
        match text.and_then(|t| Model::from_json(&t).ok()) {
            Some(m) => {
                if debug_text(&m) != debug_text(&lib) {
                    obs.violation("thor-output-differs-from-library-model", format!("{}: the file written with -o does not load to the library's model", origin), json!({}));
                }
            }
            None => obs.violation("thor-output-missing-or-not-a-model", format!("{}: the file named with -o is missing or does not load", origin), json!({})),
        }
    }

    fn negative_case(&self, which: u64, release: bool, obs: &mut Obs) {
        let d = scratch_dir(&format!("neg{}", which));
        let name = match which % 4 {
            0 => "empty directory",
            1 => {
                // result files only
                if let Some(src) = crate::corpus::kyg_files().first() {
                    let _ = std::fs::copy(src, d.join("KyGananciasSolares.txt"));
                }
                if let Some(src) = crate::corpus::tbl_files().first() {
                    let _ = std::fs::copy(src, d.join("NewBDL_O.tbl"));
                }
                "directory with result files but no project"
            }
            2 => {
                let _ = std::fs::remove_dir_all(&d);
                "missing directory"
            }
            _ => {
                let _ = std::fs::write(d.join("roto.ctehexml"), "esto no es XML {\"a\": 1}\n<<<");
                "directory whose .ctehexml is not XML"
            }
        };
        let bin = bin_dir(release).join("hulc2model");
        let ds = d.to_string_lossy().to_string();
        for extra in [false, true] {
            obs.eval();
            let mut args: Vec<&str> = vec![];
            if extra {
                args.push("--use-extra");
            }
            args.push(&ds);
            if let Some(r) = run(&bin, &args, None) {
                obs.count("negative_runs");
                obs.nontrivial(crate::rng::fnv64(format!("{}{}{}", name, extra, release).as_bytes()));
                if r.code == Some(0) {
                    obs.violation("export-exit-0-without-project", format!("{}: hulc2model exits 0", name), json!({"stdout_head": String::from_utf8_lossy(&r.stdout).chars().take(200).collect::<String>()}));
                }
                if let Some(at) = contains_json_document(&r.stdout) {
                    obs.violation("export-writes-json-without-project", format!("{}: stdout contains a JSON document at byte {}", name, at), json!({"stdout_head": String::from_utf8_lossy(&r.stdout).chars().take(200).collect::<String>()}));
                }
            }
        }
        let _ = std::fs::remove_dir_all(&d);
    }

    /// synthetic project directory written by the harness's printers, optionally with a copied system section
    fn synthetic_dir(&self, rng: &mut Rng, tag: &str, minimal: bool) -> Option<PathBuf> {
        // every fourth project is as small as a project gets (one storey, one space, no schedules, shades or systems): its
        // export is a few kB, below the sizes at which buffered writers flush by themselves
        let mut b = if minimal { gen_building(rng, &BuildCfg { turned_spaces: false, own_polygon_walls: false, shades: false, schedules: false, odd_space_height: false, legacy_absent: false, max_floors: 1, max_spaces_per_floor: 1 }) } else { gen_building(rng, &BuildCfg::full()) };
        if minimal {
            // no windows, one construction for everything
            let l0 = b.layers[0].name.clone();
            for f in b.floors.iter_mut() {
                for sp in f.spaces.iter_mut() {
                    // two facades and the floor slab
                    let floor = sp.walls.iter().position(|w| w.name.ends_with("_FTER"));
                    let mut keep: Vec<_> = sp.walls.iter().take(2).cloned().collect();
                    if let Some(i) = floor {
                        if i >= 2 {
                            keep.push(sp.walls[i].clone());
                        }
                    }
                    sp.walls = keep;
                    for w in sp.walls.iter_mut() {
                        w.windows.clear();
                        w.layers = l0.clone();
                        w.absorptance = 0.6;
                    }
                }
            }
        }
        let lay = Layout::random(rng);
        let bdl = print_blocks(rng, &b.blocks(), &lay);
        // system sections: none, copied from a real project (VyP and GT sections), or generated with every kind the format knows
        let mut general_extra = String::new();
        let systems = match if minimal { 0 } else { rng.usize(4) } {
            0 => String::new(),
            1 => {
                let files = crate::corpus::ctehexml_files();
                let t = crate::corpus::read_utf8(&files[rng.usize(files.len())]);
                let mut s = String::new();
                for tag in ["Definicion_Sistema", "Definicion_Sistema_CALENER_GT"] {
                    if let (Some(a), Some(e)) = (t.find(&format!("<{}>", tag)), t.find(&format!("</{}>", tag))) {
                        s.push_str(&t[a..e + tag.len() + 3]);
                        s.push('\n');
                    }
                }
                s
            }
            _ => {
                let (extra, sys, _) = crate::gen::sysxml::gen_systems(rng, &b.space_names(), false);
                general_extra = extra;
                sys
            }
        };
        let full = b.ctehexml_ext(&bdl, &general_extra, &systems);
        let d = scratch_dir(tag);
        std::fs::write(d.join("proyecto.ctehexml"), &full).ok()?;
        // result files made by the harness from the library's own conversion: a few walls, a few windows
        if rng.chance(0.6) {
            if let crate::convert::Conv::Ok(m) = crate::convert::convert_ctehexml_fast(&full) {
                let one_sided = rng.usize(3); // 0 both, 1 only walls, 2 only windows
                let mut k = vec!["###;Datos para Factor de Perdidas".to_string()];
                let mut extra_kinds = 0;
                if one_sided != 2 {
                    for w in m.walls.iter().take(12) {
                        k.push(format!("Muro;{};{:.2};{:.2};1.00;Fachada;S ;cons", w.name, w.geometry.polygon.len() as f32 * 3.0, rng.dec(0.1, 3.0, 2)));
                    }
                }
                if one_sided != 1 {
                    for w in m.windows.iter().take(8) {
                        k.push(format!("Ventana;{};{:.2};{:.2};S ;10.00;0.79;-1.00;1.00;50.00;hueco", w.name, w.geometry.width * w.geometry.height, rng.dec(0.8, 5.0, 2)));
                    }
                }
                // element lines of a kind this reader does not know (a summary line, a newer HULC's element class)
                if rng.chance(0.3) {
                    k.push(rng.pick(&["Muros;resumen;120,00;0,45;1,00", "Ventanas;resumen;24,50;2,10", "MuroCortina;MC_01;15,00;1,80;1,00;Fachada;S ;cons", "PPTT_LINEAL;12,50;0,10;frente_forjado"]).to_string());
                    extra_kinds += 1;
                }
                k.push("Coeficiente K = ;0,500".into());
                if one_sided != 1 {
                    for w in m.windows.iter().take(8) {
                        let ht = rng.dec(30000.0, 120000.0, 3);
                        k.push(format!("\"{}\"; 180.000000; 1.000000; {:.6}; {:.6}; {:.6}; {:.6}; 100.000000", w.name, ht, ht * 0.9, ht * 0.8, ht * rng.dec(0.1, 0.9, 2)));
                    }
                }
                std::fs::write(d.join("KyGananciasSolares.txt"), k.join("\n")).ok()?;
                if extra_kinds > 0 {
                    let _ = std::fs::write(d.join(".has_unknown_kyg_lines"), "");
                }
                if rng.chance(0.7) && one_sided != 2 {
                    let mut t = vec!["Nombre".to_string(), " A U p f fv angNorte tilt tipo codigo0 codigo1".to_string(), format!("{} 0", m.walls.len())];
                    for w in &m.walls {
                        t.push(format!("\"{}\"", w.name));
                        t.push(format!(" 10.000000 {:.6} 100.000000 0.000000 0.000000 0.000000 90.000000 0 0 -1", rng.dec(0.1, 3.0, 4)));
                    }
                    std::fs::write(d.join("NewBDL_O.tbl"), t.join("\n") + "\n").ok()?;
                }
            }
        }
        Some(d)
    }
}

impl Property for C01 {
    fn id(&self) -> &'static str {
        "C01"
    }
    fn rule(&self) -> String {
        "the built binaries hulc2model and thor are spawned on the 12 shipped project directories and on synthetic project directories written by the harness's printers (a quarter with a copied VyP/GT system section, half with generated system sections, most with harness-made KyG/tbl files giving wall-only, window-only or two-sided overrides) x {default, --use-extra} x RUST_LOG {unset, info, debug}; stdout/stderr/exit status captured byte-exactly: stdout must hold exactly one JSON value (serde_json stream deserialiser) that loads to a model equal in every field (Debug text) to hulc2model::collect_hulc_data for the same directory; 4 kinds of directories without project: non-zero exit and no JSON value at any '{'/'[' offset of stdout; thor FILE -o OUT (OUT absent, or present and longer than the model): OUT loads to the library's model (thor's own stdout is recorded, not judged); in-process: bytes arriving at fd 1 during library calls are counted and must be 0, also over generated projects whose system sections (VyP systems x equipment x terminal units, on-site production and ventilation records, GT loops/plant/air systems/zones; floor: 75 of 82 kinds seen in converted projects) drive every branch of the systems parser that runs inside each conversion; for each of these converted models as_json() (what the tool prints) is loaded back in process and must equal the model, a third of the projects carrying edge values (0, 1e-6, 1e6) in data attributes; thorough repeats with the release-profile binaries; non-trivial = distinct (directory, option, RUST_LOG, profile) run".into()
    }
    fn assumptions(&self) -> Vec<String> {
        vec!["binaries are built by ./check from /repo's working tree without the verification cfg (dev profile; thorough also the workspace release profile)".into(), "the Windows GUI is out of scope".into()]
    }
    fn workloads(&self, tier: Tier) -> Vec<(String, u64)> {
        vec![
            ("real".into(), crate::corpus::project_dirs().len() as u64 * 2),
            ("real-logging".into(), 6),
            ("synthetic".into(), tier.pick(32, 160)),
            ("library-stdout".into(), tier.pick(400, 8000)),
            ("thor".into(), crate::corpus::ctehexml_files().len() as u64),
            ("negative".into(), 4),
            ("release-profile".into(), tier.pick(0, crate::corpus::project_dirs().len() as u64 + 4)),
        ]
    }
    fn required(&self, tier: Tier) -> Vec<(String, u64)> {
        vec![
            ("hulc2model:default".into(), 15),
            ("hulc2model:--use-extra".into(), 15),
            ("rust_log:info".into(), 2),
            ("rust_log:debug".into(), 2),
            ("thor:-o".into(), 10),
            ("thor:-o onto an existing longer file".into(), 3),
            ("negative_runs".into(), 8),
            ("library_calls_with_stdout_watched".into(), 30),
            ("models_with_one_sided_overrides".into(), tier.pick(1, 3)),
            ("exports_smaller_than_8_KiB".into(), 2),
            ("distinct:syskind:".into(), 75),
            ("distinct:edge-value:".into(), 25),
            ("in_process_export_load_compare".into(), 200),
        ]
    }
    fn case_timeout_s(&self, tier: Tier) -> u64 {
        tier.pick(150, 600)
    }
    fn run_case(&self, case: &Case, obs: &mut Obs) {
        let mut rng = case.rng();
        let dirs = crate::corpus::project_dirs();
        match case.kind {
            "real" => {
                let d = &dirs[(case.index / 2) as usize];
                self.export_case(d, &d.file_name().unwrap().to_string_lossy(), case.index % 2 == 1, None, false, obs);
            }
            "real-logging" => {
                let d = &dirs[(case.index as usize * 5) % dirs.len()];
                self.export_case(d, &d.file_name().unwrap().to_string_lossy(), case.index % 2 == 0, Some(if case.index % 3 == 0 { "debug" } else { "info" }), false, obs);
            }
            "synthetic" => {
                if let Some(d) = self.synthetic_dir(&mut rng, &format!("syn{}", case.index), case.index % 4 == 3) {
                    let origin = format!("synthetic#{}", case.index);
                    self.export_case(&d, &origin, false, None, false, obs);
                    self.export_case(&d, &origin, true, if case.index % 3 == 0 { Some("info") } else { None }, false, obs);
                    if let Some(f) = std::fs::read_dir(&d).ok().and_then(|r| r.flatten().map(|e| e.path()).find(|p| p.extension().map_or(false, |e| e == "ctehexml"))) {
                        self.thor_case(&f, &origin, false, obs);
                    }
                    let _ = std::fs::remove_dir_all(&d);
                }
            }
            "library-stdout" => {
                // in process: a generated project with generated system sections (every kind of VyP system, equipment,
                // terminal unit, on-site production record, ventilation record, GT block), fd 1 watched
                let b = gen_building(&mut rng, &BuildCfg::full());
                let mut blocks = b.blocks();
                // every third project: a few data values (not geometry) replaced by 0, 1e-6 or 1e6
                let edges = if case.index % 3 == 1 { edge_numbers(&mut rng, &mut blocks, 0.03) } else { vec![] };
                let bdl = print_blocks(&mut rng, &blocks, &Layout::hulc());
                let unknown = case.index % 5 == 4;
                let (extra, sys, sum) = crate::gen::sysxml::gen_systems(&mut rng, &b.space_names(), unknown);
                let full = b.ctehexml_ext(&bdl, &extra, &sys);
                let before = crate::fdcap::stdout_bytes();
                let r = crate::convert::convert_ctehexml_fast(&full);
                let after = crate::fdcap::stdout_bytes();
                obs.eval();
                obs.count("library_calls_with_stdout_watched");
                obs.nontrivial(crate::rng::fnv64(full.as_bytes()));
                match r {
                    crate::convert::Conv::Ok(m) => {
                        obs.count("library-stdout:converted");
                        for e in &edges {
                            obs.count(&format!("edge-value:{}:{}", e.0, e.1));
                        }
                        // what the export tool prints is model.as_json(): it must load back to an equal model
                        match guard(|| m.as_json().ok().and_then(|j| Model::from_json(&j).ok())) {
                            Ok(Some(back)) => {
                                obs.count("in_process_export_load_compare");
                                let (a, b2) = (debug_text(&back), debug_text(&m));
                                if a != b2 {
                                    let pos = a.bytes().zip(b2.bytes()).position(|(x, y)| x != y).unwrap_or(a.len().min(b2.len()));
                                    let field = b2[..pos.min(b2.len())].rsplit(|c: char| c == ' ' || c == '{' || c == '(' || c == ',').find(|t| t.ends_with(':')).unwrap_or("?").trim_end_matches(':').to_string();
                                    obs.violation(
                                        &format!("exported-model-differs-from-library-model:{}", field),
                                        format!("in process: as_json() of the converted model loads back different near `{}`: loaded …{}… library …{}… (edge values: {:?})", field, a.chars().skip(pos.saturating_sub(40)).take(120).collect::<String>(), b2.chars().skip(pos.saturating_sub(40)).take(120).collect::<String>(), edges),
                                        json!({"edge_values": format!("{:?}", edges), "bdl_head": bdl.chars().take(4000).collect::<String>()}),
                                    );
                                }
                            }
                            Ok(None) => obs.violation("stdout-json-does-not-load-as-model", format!("in process: as_json() of a converted model does not load back (edge values: {:?})", edges), json!({"edge_values": format!("{:?}", edges)})),
                            Err(p) => obs.panic_violation(&p, json!({"where": "as_json/from_json of a converted model"})),
                        }
                        for k in &sum.kinds {
                            obs.count(&format!("syskind:{}", k));
                        }
                        if after != before {
                            obs.violation(
                                "library-writes-to-stdout",
                                format!("converting a generated project (systems: {}) wrote {} bytes to standard output, beginning with {:?}", sum.kinds.join(", ").chars().take(200).collect::<String>(), after - before, crate::fdcap::stdout_slice(before, 80)),
                                json!({"ctehexml_without_bdl": format!("{}\n…\n{}", extra, sys).chars().take(6000).collect::<String>()}),
                            );
                            crate::fdcap::reset();
                        }
                    }
                    crate::convert::Conv::Err(e) => {
                        obs.count("library-stdout:rejected");
                        if !sum.has_unknown {
                            obs.harness_error(format!("generated system section without unknown kinds is rejected: {}", e));
                        }
                        if after != before {
                            obs.count("stdout_bytes_on_rejected_input");
                            crate::fdcap::reset();
                        }
                    }
                    crate::convert::Conv::Panic(p) => obs.panic_violation(&p, json!({"where": "conversion of a generated project with system sections"})),
                }
            }
            "thor" => {
                let files = crate::corpus::ctehexml_files();
                let f = &files[case.index as usize];
                self.thor_case(f, &f.file_name().unwrap().to_string_lossy(), false, obs);
            }
            "negative" => self.negative_case(case.index, false, obs),
            _ => {
                if !bin_dir(true).join("hulc2model").exists() {
                    obs.inconclusive("release-profile binaries not built");
                    return;
                }
                let n = dirs.len() as u64;
                if case.index < n {
                    let d = &dirs[case.index as usize];
                    self.export_case(d, &format!("{} (release)", d.file_name().unwrap().to_string_lossy()), case.index % 2 == 0, None, true, obs);
                } else {
                    self.negative_case(case.index - n, true, obs);
                }
            }
        }
    }
}
