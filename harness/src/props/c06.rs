//! C06 Opaque U-values follow EN ISO 6946, 13370 and 13789

use bemodel::{BoundaryType, Layer, MatProps, Material, Model, Uuid, Wall};
use serde_json::{json, Value};

use crate::convert::{convert_path, real_project_files, Conv};
use crate::core::{Case, Obs, Property, Tier};
use crate::gen::model::{gen_model, load_model, uuid, GenCfg};
use crate::oracle::mref::{tilt_boundary_distance, tilt_class, MRef, URef};
use crate::panicx::guard;
use crate::rng::Rng;

pub struct C06;

// half a unit of the second decimal (the reported figure is rounded) + 4e-4 for f32 arithmetic along the chained formulas
pub const TOL: f64 = 0.0055;

const BRANCHES: [&str; 16] = [
    "ext-roof",
    "ext-wall",
    "ext-floor",
    "adiab-roof",
    "adiab-wall",
    "adiab-floor",
    "gnd-roof",
    "gnd-slab-eq11",
    "gnd-slab-eq12",
    "gnd-wall-unburied",
    "gnd-wall-full",
    "gnd-wall-partial",
    "int-no-neighbour",
    "int-cond-uncond-ceiling",
    "int-cond-uncond-wall",
    "int-cond-uncond-floor",
];

fn wall_ctx(m: &Model, w: &Wall, r: &MRef) -> Value {
    json!({
        "wall": format!("{:?}", w),
        "space": format!("{:?}", r.space(w.space)),
        "next_space": format!("{:?}", w.next_to.and_then(|n| r.space(n))),
        "construction": format!("{:?}", m.cons.wallcons.iter().find(|c| c.id == w.cons)),
        "resistance_ref": r.resistance(w.cons),
        "meta": format!("{:?}", m.meta),
        "char_dim_ref": r.char_dim(w.space, &crate::oracle::mref::Pert::ZERO),
        "d_t_ref": r.d_t(w.space),
        "height_net_ref": r.height_net(w.space),
        "global_vent_ref": r.global_vent(),
    })
}

/// Compares every wall of `m`; returns number of walls compared
pub fn check_model(m: &Model, origin: &str, obs: &mut Obs, with_props: bool) {
    let r = MRef::new(m);
    let props = if with_props {
        match guard(|| m.energy_indicators()) {
            Ok(i) => Some(i),
            Err(p) => {
                obs.panic_violation(&p, json!({"where": "energy_indicators", "origin": origin}));
                None
            }
        }
    } else {
        None
    };
    for w in &m.walls {
        obs.eval();
        let got = match guard(|| w.u_value(m)) {
            Ok(v) => v,
            Err(p) => {
                obs.panic_violation(&p, json!({"where": "Wall::u_value", "origin": origin, "wall": format!("{:?}", w)}));
                continue;
            }
        };
        if tilt_boundary_distance(w.geometry.tilt) < 1e-4 && tilt_boundary_distance(w.geometry.tilt) > 0.0 {
            obs.ambiguous("tilt within 1e-4 degrees of a class boundary");
            continue;
        }
        let uref = r.u_ref(w);
        let mut observed: Vec<(&str, Option<f32>)> = vec![("Wall::u_value", got)];
        if let Some(ind) = &props {
            // duplicated ids make the map view ambiguous; compare only when the id is unique
            if m.walls.iter().filter(|x| x.id == w.id).count() == 1 {
                if let Some(wp) = ind.props.walls.get(&w.id) {
                    observed.push(("props.walls[id].u_value", wp.u_value));
                }
            }
        }
        match &uref {
            URef::None => {
                obs.count("branch:none");
                obs.nontrivial_str(&format!("none{:?}{:?}", w.bounds, w.cons));
                for (name, g) in &observed {
                    if g.is_some() {
                        obs.violation(
                            &format!("u-reported-without-definition:{}", name),
                            format!("{} {}: {} = {:?} but construction/material/space does not resolve", origin, w.name, name, g),
                            wall_ctx(m, w, &r),
                        );
                    }
                }
            }
            URef::Unspecified(why) => {
                obs.count(&format!("unspecified:{}", why));
                if *why == "partition between equally conditioned spaces" {
                    if let Some(res) = r.resistance(w.cons) {
                        let (lo, hi) = (1.0 / (res + 0.34), 1.0 / (res + 0.20));
                        for (name, g) in &observed {
                            match g {
                                Some(u) if (*u as f64) >= lo - TOL && (*u as f64) <= hi + TOL => {}
                                other => obs.violation(
                                    &format!("u-partition-equal-conditioning:{}", name),
                                    format!("{} {}: {} = {:?}, outside every standard-consistent value [{:.4},{:.4}]", origin, w.name, name, other, lo, hi),
                                    wall_ctx(m, w, &r),
                                ),
                            }
                        }
                    }
                }
            }
            URef::Interval(lo, hi, branch) => {
                obs.count(&format!("branch:{}", branch));
                obs.nontrivial_str(&format!("{}{:?}{:?}{}", branch, w.cons, w.geometry.tilt.to_bits(), r.wall_area(w)));
                obs.max("max:interval_width_x1e4", ((hi - lo) * 1e4) as u64);
                for (name, g) in &observed {
                    match g {
                        Some(u) if (*u as f64) >= lo - TOL && (*u as f64) <= hi + TOL => {}
                        other => obs.violation(
                            &format!("u-value:{}:{}", branch, name),
                            format!("{} {}: {} = {:?}, reference interval [{:.4},{:.4}] ({})", origin, w.name, name, other, lo, hi, branch),
                            wall_ctx(m, w, &r),
                        ),
                    }
                }
                if obs.samples.len() < 3 {
                    obs.sample(json!({"origin": origin, "wall": w.name, "bounds": format!("{:?}", w.bounds), "tilt": w.geometry.tilt, "branch": branch, "reported": got, "reference_interval": [lo, hi]}));
                }
            }
        }
    }
}

impl Property for C06 {
    fn id(&self) -> &'static str {
        "C06"
    }
    fn rule(&self) -> String {
        "generated closed models (grid buildings: 4 boundary kinds x 3 tilt classes incl. class-boundary tilts, conditioned/unconditioned/uninhabited neighbours from either side, basements fully/partly buried, perimeter insulation on/off, ventilation per space or building-wide, layer stacks with R from 0 to ~10) + all walls of the shipped and converted real models; each wall's Wall::u_value and props.walls[id].u_value is compared with an interval-valued f64 reference; metamorphic: added/thickened layer never raises U, removed construction/material gives None; non-trivial = distinct (formula branch, construction, tilt, area) tuple".into()
    }
    fn assumptions(&self) -> Vec<String> {
        vec![
            "reference follows this code base's documented modelling choices for exposed perimeter P, B' and d_t (they are the definition here)".into(),
            "documented 2/3-decimal rounding of U_w, U_e, P, B', U_bw, psi is propagated as an interval; final rounding admits +-0.0051".into(),
            "unspecified by the statement and accepted in any standard-consistent form: Rsi pair of partitions between equally conditioned spaces; ground elements in spaces without slab".into(),
        ]
    }
    fn workloads(&self, tier: Tier) -> Vec<(String, u64)> {
        vec![
            ("real-json".into(), crate::corpus::model_json_files().len() as u64),
            ("real-converted".into(), real_project_files().len() as u64),
            ("generated".into(), tier.pick(1200, 20_000)),
            ("monotone".into(), tier.pick(450, 6000)),
            ("missing".into(), tier.pick(300, 4000)),
        ]
    }
    fn required(&self, tier: Tier) -> Vec<(String, u64)> {
        let floor = tier.pick(30, 500);
        let mut v: Vec<(String, u64)> = BRANCHES.iter().map(|b| (format!("branch:{}", b), floor)).collect();
        v.push(("branch:none".into(), 20));
        v.push(("monotone_pairs".into(), 200));
        v
    }
    fn run_case(&self, case: &Case, obs: &mut Obs) {
        let mut rng = case.rng();
        match case.kind {
            "real-json" => {
                let files = crate::corpus::model_json_files();
                let f = &files[case.index as usize];
                match load_model(f) {
                    Some(m) => {
                        obs.count("real_models");
                        check_model(&m, &f.file_name().unwrap().to_string_lossy(), obs, true)
                    }
                    None => obs.harness_error(format!("cannot load shipped model {}", f.display())),
                }
            }
            "real-converted" => {
                let files = real_project_files();
                let f = &files[case.index as usize];
                match convert_path(f) {
                    Conv::Ok(m) => {
                        obs.count("real_models");
                        check_model(&m, &f.file_name().unwrap().to_string_lossy(), obs, true)
                    }
                    Conv::Err(_) => obs.count("real_project_rejected_by_converter"),
                    Conv::Panic(_) => obs.count("real_project_converter_panic(C02/C19 domain)"),
                }
            }
            "generated" => {
                let b = gen_model(&mut rng, &GenCfg::small());
                check_model(&b.model, &format!("generated#{}", case.index), obs, rng.chance(0.3));
            }
            "monotone" => self.monotone(&mut rng, case, obs),
            _ => self.missing(&mut rng, case, obs),
        }
    }
}

impl C06 {
    fn monotone(&self, rng: &mut Rng, case: &Case, obs: &mut Obs) {
        let b = gen_model(rng, &GenCfg::small());
        let m = b.model;
        if m.cons.wallcons.is_empty() {
            return;
        }
        let ci = rng.usize(m.cons.wallcons.len());
        let mut m2 = m.clone();
        let what;
        if rng.chance(0.5) || m2.cons.wallcons[ci].layers.is_empty() {
            // append a layer with R > 0
            let mat = Material {
                id: uuid(rng),
                name: "added".into(),
                properties: if rng.chance(0.5) {
                    MatProps::Resistance { resistance: rng.dec(0.01, 3.0, 2) as f32, vapour_diff: None }
                } else {
                    MatProps::Detailed { conductivity: rng.dec(0.03, 2.0, 2) as f32, density: 1000.0, specific_heat: 1000.0, vapour_diff: None }
                },
            };
            let at = rng.usize(m2.cons.wallcons[ci].layers.len() + 1);
            m2.cons.wallcons[ci].layers.insert(at, Layer { material: mat.id, e: rng.dec(0.01, 0.2, 3) as f32 });
            m2.cons.materials.push(mat);
            what = "layer added";
        } else {
            let li = rng.usize(m2.cons.wallcons[ci].layers.len());
            let k = rng.range_f(1.05, 4.0) as f32;
            m2.cons.wallcons[ci].layers[li].e *= k;
            what = "layer thickened";
        }
        let cid = m.cons.wallcons[ci].id;
        for (w, w2) in m.walls.iter().zip(m2.walls.iter()) {
            if w.cons != cid {
                continue;
            }
            if w.bounds == BoundaryType::GROUND {
                continue; // the statement speaks of air-contact elements and partitions
            }
            obs.eval();
            let (u, u2) = match (guard(|| w.u_value(&m)), guard(|| w2.u_value(&m2))) {
                (Ok(a), Ok(b)) => (a, b),
                (Err(p), _) | (_, Err(p)) => {
                    obs.panic_violation(&p, json!({"where": "Wall::u_value (monotone pair)"}));
                    continue;
                }
            };
            obs.count("monotone_pairs");
            if let (Some(a), Some(b)) = (u, u2) {
                obs.nontrivial_str(&format!("mono{}{}{}", case.index, w.name, what));
                if (b as f64) > (a as f64) + 1e-6 {
                    // Identify the one mechanism by which the documented formulas themselves are not
                    // monotone: a thicker ceiling shrinks the net habitable volume, so the building-wide
                    // air change rate 3.6 q / V rises and with it the loss of an unconditioned space that
                    // has no rate of its own.
                    let (r1, r2) = (MRef::new(&m), MRef::new(&m2));
                    let coupled = w.bounds == BoundaryType::INTERIOR
                        && m.meta.global_ventilation_l_s.is_some()
                        && (r2.vol_inh_net() - r1.vol_inh_net()).abs() > 1e-9
                        && [Some(w.space), w.next_to].iter().flatten().any(|sid| {
                            r1.space(*sid).map_or(false, |s| s.kind != bemodel::SpaceType::CONDITIONED && s.n_v.is_none())
                        });
                    let sig = if coupled {
                        "u-not-monotone-in-insulation:building-ventilation-rate-rises-when-net-volume-shrinks"
                    } else {
                        "u-not-monotone-in-insulation"
                    };
                    obs.violation(
                        sig,
                        format!("{}: U rose from {} to {} for {:?} element {}", what, a, b, w.bounds, w.name),
                        json!({"wall": format!("{:?}", w), "construction_before": format!("{:?}", m.cons.wallcons[ci]), "construction_after": format!("{:?}", m2.cons.wallcons[ci])}),
                    );
                }
            } else if u.is_some() != u2.is_some() {
                obs.violation(
                    "u-defined-changes-with-insulation",
                    format!("{}: U went from {:?} to {:?} for element {}", what, u, u2, w.name),
                    json!({"wall": format!("{:?}", w)}),
                );
            }
        }
    }

    fn missing(&self, rng: &mut Rng, case: &Case, obs: &mut Obs) {
        let b = gen_model(rng, &GenCfg::small());
        let mut m = b.model;
        if m.cons.wallcons.is_empty() {
            return;
        }
        let ci = rng.usize(m.cons.wallcons.len());
        let cid = m.cons.wallcons[ci].id;
        let mode = rng.usize(3);
        let mut removed_mat: Option<Uuid> = None;
        match mode {
            0 => {
                m.cons.wallcons.remove(ci);
            }
            1 if !m.cons.wallcons[ci].layers.is_empty() => {
                let li = rng.usize(m.cons.wallcons[ci].layers.len());
                let mid = m.cons.wallcons[ci].layers[li].material;
                m.cons.materials.retain(|x| x.id != mid);
                removed_mat = Some(mid);
            }
            _ => {
                // material with zero conductivity: no resistance can be defined
                if let Some(l) = m.cons.wallcons[ci].layers.first() {
                    let mid = l.material;
                    for mat in m.cons.materials.iter_mut() {
                        if mat.id == mid {
                            mat.properties = MatProps::Detailed { conductivity: 0.0, density: 1.0, specific_heat: 1.0, vapour_diff: None };
                        }
                    }
                    removed_mat = Some(mid);
                }
            }
        }
        let _ = (cid, removed_mat, case);
        // the ordinary comparison covers it: the reference says None for every affected element
        check_model(&m, &format!("missing#{}(mode {})", case.index, mode), obs, false);
    }
}

#[allow(dead_code)]
fn _unused(_: &dyn Fn(f32) -> crate::oracle::mref::TiltC) {}
#[allow(dead_code)]
fn _t() {
    _unused(&tilt_class);
}
