pub mod model;
