pub mod model;
pub mod jsonmut;
