pub mod bdl;
pub mod jsonmut;
pub mod model;
