pub mod bdl;
pub mod jsonmut;
pub mod model;
pub mod sysxml;
