//! G-bdl: abstract buildings, their HULC/LIDER block form, and a layout-randomising printer.

use crate::rng::Rng;

#[derive(Clone, Debug, PartialEq)]
pub enum AVal {
    Num(f32),
    /// string that HULC writes quoted
    Str(String),
    /// bare keyword (TYPE = CONDITIONED)
    Word(String),
    NumList(Vec<f32>),
    /// list of integers (MONTH / DAY of a yearly schedule): only integer spellings are legitimate
    IntList(Vec<u32>),
    StrList(Vec<String>),
    P2(f32, f32),
    P3(f32, f32, f32),
    /// a parenthesised list kept verbatim (only line breaks after commas outside quotes may be added)
    Raw(String),
}

#[derive(Clone, Debug)]
pub struct ABlock {
    pub name: String,
    pub btype: String,
    pub attrs: Vec<(String, AVal)>,
}

impl ABlock {
    pub fn new(name: &str, btype: &str) -> Self {
        ABlock { name: name.to_string(), btype: btype.to_string(), attrs: vec![] }
    }
    pub fn num(mut self, k: &str, v: f32) -> Self {
        self.attrs.push((k.to_string(), AVal::Num(v)));
        self
    }
    pub fn s(mut self, k: &str, v: &str) -> Self {
        self.attrs.push((k.to_string(), AVal::Str(v.to_string())));
        self
    }
    pub fn w(mut self, k: &str, v: &str) -> Self {
        self.attrs.push((k.to_string(), AVal::Word(v.to_string())));
        self
    }
    pub fn nums(mut self, k: &str, v: Vec<f32>) -> Self {
        self.attrs.push((k.to_string(), AVal::NumList(v)));
        self
    }
    pub fn ints(mut self, k: &str, v: Vec<u32>) -> Self {
        self.attrs.push((k.to_string(), AVal::IntList(v)));
        self
    }
    pub fn strs(mut self, k: &str, v: Vec<String>) -> Self {
        self.attrs.push((k.to_string(), AVal::StrList(v)));
        self
    }
    pub fn get(&self, k: &str) -> Option<&AVal> {
        self.attrs.iter().rev().find(|(a, _)| a == k).map(|(_, v)| v)
    }
    pub fn set(&mut self, k: &str, v: AVal) {
        if let Some(e) = self.attrs.iter_mut().find(|(a, _)| a == k) {
            e.1 = v;
        } else {
            self.attrs.push((k.to_string(), v));
        }
    }
    pub fn remove(&mut self, k: &str) {
        self.attrs.retain(|(a, _)| a != k);
    }
}

/// parent a block gets under the BDL nesting rule (floor > space > wall > window/construction)
pub fn expected_parents(blocks: &[ABlock]) -> Vec<Option<String>> {
    let mut floor = "Default".to_string();
    let mut space = String::new();
    let mut wall = String::new();
    blocks
        .iter()
        .map(|b| match b.btype.as_str() {
            "FLOOR" => {
                floor = b.name.clone();
                None
            }
            "SPACE" => {
                space = b.name.clone();
                Some(floor.clone())
            }
            "EXTERIOR-WALL" | "INTERIOR-WALL" | "ROOF" | "UNDERGROUND-WALL" | "UNDERGROUND-FLOOR" => {
                wall = b.name.clone();
                Some(space.clone())
            }
            "CONSTRUCTION" | "WINDOW" | "DOOR" => Some(wall.clone()),
            _ => None,
        })
        .collect()
}

// ---------------------------------------------------------------------------------------
// printer

#[derive(Clone, Debug)]
pub struct Layout {
    pub shuffle_attrs: bool,
    pub crlf: bool,
    pub comments: bool,
    pub blank_lines: bool,
    pub number_style: u8, // 0 plain, 1 fixed 6, 2 mixed
    pub bare_identifiers: bool,
    pub multiline_lists: bool,
    pub close_list_on_own_line: bool,
    pub terminator_inline: bool,
    pub tabs: bool,
    pub legacy_preamble: bool,
}

impl Layout {
    pub fn hulc() -> Self {
        Layout { shuffle_attrs: false, crlf: false, comments: false, blank_lines: false, number_style: 0, bare_identifiers: false, multiline_lists: false, close_list_on_own_line: false, terminator_inline: false, tabs: false, legacy_preamble: false }
    }
    pub fn random(rng: &mut Rng) -> Self {
        Layout {
            shuffle_attrs: rng.chance(0.6),
            crlf: rng.chance(0.3),
            comments: rng.chance(0.5),
            blank_lines: rng.chance(0.5),
            number_style: rng.usize(3) as u8,
            bare_identifiers: rng.chance(0.3),
            multiline_lists: rng.chance(0.5),
            close_list_on_own_line: rng.chance(0.3),
            terminator_inline: rng.chance(0.2),
            tabs: rng.chance(0.3),
            legacy_preamble: rng.chance(0.3),
        }
    }
}

pub fn fmt_num(rng: &mut Rng, v: f32, style: u8) -> String {
    let plain = format!("{}", v);
    let cands: Vec<String> = match style {
        0 => vec![plain.clone()],
        1 => vec![format!("{:.6}", v), plain.clone()],
        _ => {
            // C / Fortran style exponents: 1.82E+01, 1.820000e+01
            let cexp = |upper: bool| {
                let e = format!("{:e}", v);
                match e.split_once('e') {
                    Some((m, x)) => {
                        let xi: i32 = x.parse().unwrap_or(0);
                        format!("{}{}{}{:02}", m, if upper { "E" } else { "e" }, if xi < 0 { "-" } else { "+" }, xi.abs())
                    }
                    None => e,
                }
            };
            let mut c = vec![plain.clone(), format!("{:.6}", v), format!("{:e}", v), format!("{:E}", v), cexp(true), cexp(false), format!("{:14}", v)];
            if v.fract() == 0.0 && v.abs() < 1e7 {
                c.push(format!("{}", v as i64));
                c.push(format!("{}.0", v as i64));
                c.push(format!("{:.3}", v));
            }
            c
        }
    };
    let pick = cands[rng.usize(cands.len())].clone();
    // it must read back as the same f32 (bit for bit: "0" is not a spelling of -0.0) and must look like a number to the attribute parser
    if pick.trim().parse::<f32>().ok().map(f32::to_bits) == Some(v.to_bits()) {
        pick
    } else {
        plain
    }
}

fn is_identifier(s: &str) -> bool {
    !s.is_empty() && s.chars().all(|c| c.is_ascii_alphanumeric() || c == '_' || c == '-') && s.parse::<f32>().is_err() && !s.contains("..")
}

fn fmt_val(rng: &mut Rng, v: &AVal, lay: &Layout) -> Vec<String> {
    // returns the value as one or several physical lines
    match v {
        AVal::Num(n) => vec![fmt_num(rng, *n, lay.number_style)],
        AVal::Str(s) => {
            if lay.bare_identifiers && is_identifier(s) && rng.chance(0.5) {
                vec![s.clone()]
            } else {
                vec![format!("\"{}\"{}", s, if rng.chance(0.2) { "  " } else { "" })]
            }
        }
        AVal::Word(s) => vec![s.clone()],
        AVal::P2(x, y) => vec![format!("( {}, {} )", fmt_num(rng, *x, lay.number_style), fmt_num(rng, *y, lay.number_style))],
        AVal::P3(x, y, z) => vec![format!("( {}, {}, {} )", fmt_num(rng, *x, lay.number_style), fmt_num(rng, *y, lay.number_style), fmt_num(rng, *z, lay.number_style))],
        AVal::NumList(xs) => {
            let items: Vec<String> = xs.iter().map(|x| fmt_num(rng, *x, lay.number_style)).collect();
            fmt_list(rng, items, lay)
        }
        AVal::Raw(raw) => {
            if !lay.multiline_lists || !raw.starts_with('(') {
                return vec![raw.clone()];
            }
            let per = 1 + rng.usize(4);
            let mut lines = vec![];
            let mut cur = String::new();
            let (mut inq, mut cnt) = (false, 0);
            for ch in raw.chars() {
                if ch == '"' {
                    inq = !inq;
                }
                cur.push(ch);
                if ch == ',' && !inq {
                    cnt += 1;
                    if cnt % per == 0 {
                        lines.push(cur.clone());
                        cur.clear();
                    }
                }
            }
            if !cur.trim().is_empty() || lines.is_empty() {
                lines.push(cur);
            } else if let Some(l) = lines.last_mut() {
                l.push_str(&cur);
            }
            lines
        }
        AVal::IntList(xs) => {
            let items: Vec<String> = xs.iter().map(|x| if rng.chance(0.3) { format!("{:3}", x) } else { format!("{}", x) }).collect();
            fmt_list(rng, items, lay)
        }
        AVal::StrList(xs) => {
            let items: Vec<String> = xs.iter().map(|x| format!("\"{}\"", x)).collect();
            fmt_list(rng, items, lay)
        }
    }
}

fn fmt_list(rng: &mut Rng, items: Vec<String>, lay: &Layout) -> Vec<String> {
    let sep = if rng.chance(0.5) { ", " } else { "," };
    if !lay.multiline_lists || items.len() < 2 {
        let inner = items.join(sep);
        if lay.close_list_on_own_line && !items.is_empty() && rng.chance(0.5) {
            return vec![format!("( {}", inner), ")".to_string()];
        }
        return vec![format!("( {}{})", inner, if rng.chance(0.5) { " " } else { "" })];
    }
    // break after commas, every 1..4 items
    let mut lines = vec![];
    let mut cur = String::from("(");
    let per = 1 + rng.usize(4);
    for (i, it) in items.iter().enumerate() {
        cur.push_str(it);
        if i + 1 < items.len() {
            cur.push(',');
            if (i + 1) % per == 0 {
                lines.push(cur);
                cur = String::new();
            } else {
                cur.push(' ');
            }
        }
    }
    if lay.close_list_on_own_line {
        lines.push(cur);
        lines.push(")".to_string());
    } else {
        cur.push(')');
        lines.push(cur);
    }
    lines
}

pub fn print_blocks(rng: &mut Rng, blocks: &[ABlock], lay: &Layout) -> String {
    let mut out: Vec<String> = vec![];
    if lay.legacy_preamble {
        out.push("$ +----------------------------------------------------+".into());
        out.push("$ |         FICHERO GENERADO CON EL VERIFICADOR        |".into());
        out.push("$ +----------------------------------------------------+".into());
        out.push("$".into());
        out.push("$ PROGRAM = LIDER".into());
        out.push("CAMBIO = SI".into());
        out.push("CAMBIO-CALENER = NO".into());
        out.push("     EEGeneradaAutoconsumida        = \"0\"".into());
        out.push("           ENERGIAGT  = YES".into());
    }
    for b in blocks {
        if lay.comments && rng.chance(0.2) {
            out.push("$ ++++++++++++++++++++++++++++++".into());
            out.push(format!("$   bloque {} ", b.btype));
        }
        if lay.blank_lines && rng.chance(0.3) {
            out.push(String::new());
        }
        let ind = if lay.tabs { "\t".repeat(rng.usize(3)) } else { " ".repeat(rng.usize(12)) };
        // HULC's preamble is recognised by the exact header of the GENERAL-DATA block
        let eq = if b.btype == "GENERAL-DATA" { " = " } else { *rng.pick(&[" = ", "=", "  =  ", " =", "= "]) };
        out.push(format!("{}\"{}\"{}{}", ind, b.name, eq, b.btype));
        let mut attrs: Vec<&(String, AVal)> = b.attrs.iter().collect();
        if lay.shuffle_attrs {
            rng.shuffle(&mut attrs);
        }
        let n = attrs.len();
        let mut inline_done = false;
        for (i, (k, v)) in attrs.into_iter().enumerate() {
            let ind = if lay.tabs { "\t".repeat(1 + rng.usize(3)) } else { " ".repeat(2 + rng.usize(22)) };
            let pad = " ".repeat(rng.usize(8));
            let eq = *rng.pick(&["= ", "=", " =  ", "=\t"]);
            let mut lines = fmt_val(rng, v, lay);
            let first = lines.remove(0);
            let mut l = format!("{}{}{} {}{}", ind, k, pad, eq, first);
            if i + 1 == n && lay.terminator_inline && lines.is_empty() {
                l.push_str("  ..");
                inline_done = true;
            }
            out.push(l);
            for extra in lines {
                out.push(format!("{}    {}", ind, extra));
            }
            if lay.comments && rng.chance(0.05) {
                out.push("$ comentario intermedio".into());
            }
            if lay.blank_lines && rng.chance(0.05) {
                out.push("   ".into());
            }
        }
        if !inline_done {
            out.push(format!("{}..", " ".repeat(rng.usize(10))));
        }
    }
    let eol = if lay.crlf { "\r\n" } else { "\n" };
    let mut s = out.join(eol);
    s.push_str(eol);
    s
}

// ---------------------------------------------------------------------------------------
// names

const WORDS: [&str; 16] = ["muro", "fachada", "forjado", "cubierta", "solera", "tabique", "medianera", "vidrio", "marco", "hueco", "aislante", "ladrillo", "hormigon", "yeso", "camara", "perfil"];

pub fn ident(rng: &mut Rng, prefix: &str) -> String {
    format!("{}_{}{}", prefix, WORDS[rng.usize(WORDS.len())], rng.below(100_000))
}
/// names as they occur in HULC data bases: words, accents, blanks, dashes, brackets
pub fn db_name(rng: &mut Rng, prefix: &str) -> String {
    match rng.usize(4) {
        0 => format!("{} {} [{} mm]", prefix, WORDS[rng.usize(16)], rng.below(400)),
        1 => format!("{} cerámica-{} {}", prefix, WORDS[rng.usize(16)], rng.below(10_000)),
        2 => format!("{} {} d > {}", prefix, WORDS[rng.usize(16)], rng.below(3000)),
        _ => ident(rng, prefix),
    }
}

// ---------------------------------------------------------------------------------------
// abstract building

#[derive(Clone, Debug)]
pub struct AWindow {
    pub name: String,
    pub gap: String,
    pub x: f32,
    pub y: f32,
    pub w: f32,
    pub h: f32,
    pub setback: f32,
    /// (a, b, width, depth, angle)
    pub overhang: Option<(f32, f32, f32, f32, f32)>,
    /// (a, b, height, depth)
    pub left_fin: Option<(f32, f32, f32, f32)>,
    pub right_fin: Option<(f32, f32, f32, f32)>,
}

#[derive(Clone, Debug, PartialEq)]
pub enum WallLoc {
    /// SPACE-Vn, n from 1
    Vertex(usize),
    Top,
    Bottom,
    /// own polygon: origin (x,y,z) in space coordinates, azimuth, tilt, polygon; optionally also LOCATION = TOP
    Poly { x: f32, y: f32, z: f32, azimuth: f32, tilt: f32, polygon: Vec<(f32, f32)>, location_top: bool },
}

#[derive(Clone, Debug)]
pub struct AWall {
    pub name: String,
    /// EXTERIOR-WALL | ROOF | INTERIOR-WALL | UNDERGROUND-WALL
    pub btype: String,
    pub adiabatic: bool,
    pub next_to: Option<String>,
    pub layers: String,
    pub absorptance: f32,
    pub loc: WallLoc,
    pub windows: Vec<AWindow>,
}

#[derive(Clone, Debug)]
pub struct ASpace {
    pub name: String,
    pub outline: Vec<(f32, f32)>,
    pub x: f32,
    pub y: f32,
    /// level of the space above its storey's level (raised room, split level); 0 for most spaces
    pub z: f32,
    pub azimuth: f32,
    /// HEIGHT attribute written in the SPACE block (HULC writes the floor's; LIDER may omit it; it may also differ)
    pub height_attr: Option<f32>,
    pub stype: String,
    pub inside: Option<bool>,
    pub multiplier: f32,
    pub conds: String,
    pub sysconds: String,
    /// SPACE-TYPE attribute (HULC writes the same name as in SYSTEM-CONDITIONS; old LIDER files have only this one)
    pub spacetype: String,
    /// POWER, VEEI-OBJ, VEEI-REF (lighting power and efficiency values; zeros are legitimate)
    pub lighting: (f32, f32, f32),
    pub walls: Vec<AWall>,
    pub air_changes: Option<f32>,
}

#[derive(Clone, Debug)]
pub struct AFloor {
    pub name: String,
    pub z: f32,
    pub height: f32,
    pub multiplier: f32,
    pub spaces: Vec<ASpace>,
}

#[derive(Clone, Debug)]
pub enum AShade {
    Rect { name: String, x: f32, y: f32, z: f32, w: f32, h: f32, azimuth: f32, tilt: f32 },
    Verts { name: String, pts: Vec<(f32, f32, f32)> },
}

/// A planar shade given by 10..=14 vertices (real LIDER files carry such shades, e.g. 12 corners): the attribute names
/// V10, V11, … sort before V2 as text, so the written sequence is only kept by a reader that follows the numbers.
pub fn many_vertex_shade(rng: &mut Rng, name: String) -> AShade {
    let n = 10 + rng.usize(5);
    let (cx, cy, cz) = (rng.dec(-20.0, 20.0, 2), rng.dec(-20.0, 20.0, 2), rng.dec(3.0, 9.0, 2));
    let a = rng.dec(0.0, 360.0, 0).to_radians();
    let (ux, uy) = (a.cos(), a.sin());
    let vertical = rng.chance(0.5);
    let pts = (0..n)
        .map(|i| {
            // an irregular outline around the centre: radius changes from corner to corner
            let r = rng.dec(1.0, 3.0, 2);
            let t = (i as f64) * std::f64::consts::TAU / (n as f64);
            let (p, q) = (r * t.cos(), r * t.sin());
            if vertical {
                (r2(cx + p * ux), r2(cy + p * uy), r2(cz + q))
            } else {
                (r2(cx + p * ux - q * uy), r2(cy + p * uy + q * ux), r2(cz))
            }
        })
        .collect();
    AShade::Verts { name, pts }
}

#[derive(Clone, Debug)]
pub struct ABuilding {
    pub deviation: f32,
    pub d_perim: f32,
    pub ra_perim: f32,
    pub materials: Vec<ABlock>,
    pub layers: Vec<ABlock>,
    pub glasses: Vec<ABlock>,
    pub frames: Vec<ABlock>,
    pub gaps: Vec<ABlock>,
    pub floors: Vec<AFloor>,
    pub shades: Vec<AShade>,
    pub bridges: Vec<ABlock>,
    pub schedules: Vec<ABlock>,
    pub space_conds: Vec<ABlock>,
    pub sys_conds: Vec<ABlock>,
    pub zone: String,
    pub dwelling: bool,
    pub new_building: bool,
    pub ventilation: f32,
    pub n50_test: Option<f32>,
    pub name: String,
    /// (block name, attribute) pairs left out of the printed blocks
    pub omit: Vec<(String, String)>,
}

fn r2(v: f64) -> f32 {
    ((v * 100.0).round() / 100.0) as f32
}

/// counter-clockwise simple outline: rectangle, L, U or convex polygon
pub fn gen_outline(rng: &mut Rng) -> Vec<(f32, f32)> {
    match rng.usize(5) {
        0 | 1 => {
            let (a, b) = (rng.dec(3.0, 14.0, 2), rng.dec(3.0, 12.0, 2));
            vec![(0.0, 0.0), (a as f32, 0.0), (a as f32, b as f32), (0.0, b as f32)]
        }
        2 => {
            let (a, b) = (rng.dec(5.0, 14.0, 2), rng.dec(5.0, 12.0, 2));
            let (c, d) = (rng.dec(1.5, a - 1.5, 2), rng.dec(1.5, b - 1.5, 2));
            vec![(0.0, 0.0), (a as f32, 0.0), (a as f32, d as f32), (c as f32, d as f32), (c as f32, b as f32), (0.0, b as f32)]
        }
        3 => {
            let (a, b, t) = (rng.dec(6.0, 14.0, 2), rng.dec(5.0, 12.0, 2), rng.dec(1.0, 2.5, 2));
            vec![(0.0, 0.0), (a as f32, 0.0), (a as f32, b as f32), ((a - t) as f32, b as f32), ((a - t) as f32, t as f32), (t as f32, t as f32), (t as f32, b as f32), (0.0, b as f32)]
        }
        _ => {
            let n = 3 + rng.usize(8);
            let (rx, ry) = (rng.dec(3.0, 9.0, 2), rng.dec(3.0, 9.0, 2));
            (0..n)
                .map(|i| {
                    let a = (360.0 * i as f64 / n as f64 + rng.range_f(-8.0, 8.0)).to_radians();
                    (r2(rx * a.cos()), r2(ry * a.sin()))
                })
                .collect()
        }
    }
}

fn material_block(rng: &mut Rng, name: &str) -> ABlock {
    if rng.chance(0.75) {
        let mut b = ABlock::new(name, "MATERIAL").w("TYPE", "PROPERTIES");
        if rng.chance(0.7) {
            b = b.num("THICKNESS", rng.dec(0.005, 0.3, 3) as f32);
        }
        b = b.num("CONDUCTIVITY", rng.dec(0.02, 2.5, 3) as f32).num("DENSITY", rng.dec(10.0, 2500.0, 0) as f32);
        if rng.chance(0.8) {
            b = b.num("SPECIFIC-HEAT", rng.dec(500.0, 2000.0, 0) as f32);
        }
        if rng.chance(0.7) {
            b = b.num("VAPOUR-DIFFUSIVITY-FACTOR", rng.dec(1.0, 100.0, 0) as f32);
        }
        if rng.chance(0.8) {
            b = b.s("GROUP", "Otro");
        }
        b.s("NAME", name).w("LIBRARY", "NO")
    } else {
        let mut b = ABlock::new(name, "MATERIAL").w("TYPE", "RESISTANCE").num("RESISTANCE", rng.dec(0.05, 2.5, 2) as f32);
        if rng.chance(0.8) {
            b = b.s("GROUP", "Cámaras de aire");
        }
        b
    }
}

pub fn gen_schedule_blocks(rng: &mut Rng, n_year: usize) -> (Vec<ABlock>, Vec<String>) {
    let mut out = vec![];
    let nd = 2 + rng.usize(4);
    let mut days: Vec<String> = (0..nd).map(|i| format!("D{}_{}", i, rng.below(10_000))).collect();
    if rng.chance(0.15) {
        days[0] = "D".to_string();
    }
    for d in &days {
        let vals: Vec<f32> = if rng.chance(0.3) { vec![rng.dec(0.0, 1.0, 2) as f32] } else { (0..24).map(|_| if rng.chance(0.4) { 0.0 } else { rng.dec(0.0, 1.0, 2) as f32 }).collect() };
        out.push(ABlock::new(d, "DAY-SCHEDULE-PD").w("TYPE", "FRACTION").nums("VALUES", vals));
    }
    let nw = 1 + rng.usize(3);
    let mut weeks: Vec<String> = (0..nw).map(|i| format!("W{}_{}", i, rng.below(10_000))).collect();
    if rng.chance(0.15) {
        weeks[0] = "W".to_string();
    }
    for w in &weeks {
        let ds: Vec<String> = if rng.chance(0.3) { vec![days[rng.usize(nd)].clone()] } else { (0..7).map(|_| days[rng.usize(nd.min(3))].clone()).collect() };
        out.push(ABlock::new(w, "WEEK-SCHEDULE-PD").w("TYPE", "FRACTION").strs("DAY-SCHEDULES", ds));
    }
    let mut years = vec![];
    for i in 0..n_year {
        let name = format!("Y{}_{}", i, rng.below(10_000));
        let np = 1 + rng.usize(4);
        let mut ends: Vec<u32> = (0..np - 1).map(|_| 1 + rng.below(364) as u32).collect();
        ends.push(365);
        ends.sort();
        ends.dedup();
        let (mut months, mut dds) = (vec![], vec![]);
        for e in &ends {
            let (m, d) = month_day(*e);
            months.push(m);
            dds.push(d);
        }
        let ws: Vec<String> = ends.iter().map(|_| weeks[rng.usize(nw)].clone()).collect();
        out.push(ABlock::new(&name, "SCHEDULE-PD").w("TYPE", "FRACTION").ints("MONTH", months).ints("DAY", dds).strs("WEEK-SCHEDULES", ws));
        years.push(name);
    }
    (out, years)
}

pub const MONTH_DAYS: [u32; 12] = [31, 28, 31, 30, 31, 30, 31, 31, 30, 31, 30, 31];
/// (month, day) of a day of the year 1..=365
pub fn month_day(n: u32) -> (u32, u32) {
    let mut rest = n;
    for (i, d) in MONTH_DAYS.iter().enumerate() {
        if rest <= *d {
            return (i as u32 + 1, rest);
        }
        rest -= d;
    }
    (12, 31)
}

pub struct BuildCfg {
    pub turned_spaces: bool,
    pub own_polygon_walls: bool,
    pub shades: bool,
    pub schedules: bool,
    /// write a HEIGHT in the space block that differs from the floor's SPACE-HEIGHT
    pub odd_space_height: bool,
    /// leave out attributes that have a documented legacy default (the abstract building then holds the default)
    pub legacy_absent: bool,
    pub max_floors: usize,
    pub max_spaces_per_floor: usize,
}
impl BuildCfg {
    pub fn full() -> Self {
        BuildCfg { turned_spaces: true, own_polygon_walls: true, shades: true, schedules: true, odd_space_height: true, legacy_absent: false, max_floors: 3, max_spaces_per_floor: 3 }
    }
}

pub fn gen_building(rng: &mut Rng, cfg: &BuildCfg) -> ABuilding {
    // data base
    let nm = 3 + rng.usize(5);
    let mut mat_names: Vec<String> = (0..nm).map(|i| db_name(rng, &format!("M{}", i))).collect();
    // names may be as short as one character
    if rng.chance(0.15) {
        let k = rng.usize(nm);
        mat_names[k] = ["M", "A", "x", "Ñ"][rng.usize(4)].to_string(); // (not a digit: values are typed by content, a quoted 7 is the number 7)
    }
    let materials: Vec<ABlock> = mat_names.iter().map(|n| material_block(rng, n)).collect();
    let nl = 2 + rng.usize(4);
    let layer_names: Vec<String> = (0..nl).map(|i| db_name(rng, &format!("C{}", i))).collect();
    let layers: Vec<ABlock> = layer_names
        .iter()
        .map(|n| {
            let k = 1 + rng.usize(5);
            let ms: Vec<String> = (0..k).map(|_| mat_names[rng.usize(nm)].clone()).collect();
            let th: Vec<f32> = (0..k).map(|_| rng.dec(0.005, 0.25, 3) as f32).collect();
            let mut b = ABlock::new(n, "LAYERS");
            if rng.chance(0.8) {
                b = b.s("GROUP", "Fachadas");
            }
            b.s("NAME", n).strs("MATERIAL", ms).nums("THICKNESS", th)
        })
        .collect();
    let glass_names: Vec<String> = (0..1 + rng.usize(2)).map(|i| db_name(rng, &format!("G{}", i))).collect();
    let glasses: Vec<ABlock> = glass_names
        .iter()
        .map(|n| ABlock::new(n, "GLASS-TYPE").s("GROUP", "Vidrios").w("TYPE", "SHADING-COEF").num("SHADING-COEF", rng.dec(0.1, 1.0, 4) as f32).num("GLASS-CONDUCTANCE", rng.dec(0.6, 5.7, 2) as f32))
        .collect();
    let frame_names: Vec<String> = (0..1 + rng.usize(2)).map(|i| db_name(rng, &format!("F{}", i))).collect();
    let frames: Vec<ABlock> = frame_names
        .iter()
        .map(|n| ABlock::new(n, "NAME-FRAME").s("GROUP", "Marcos").num("FRAME-WIDTH", rng.dec(0.03, 0.2, 2) as f32).num("FRAME-CONDUCT", rng.dec(1.0, 6.0, 2) as f32).num("FRAME-ABS", rng.dec(0.2, 0.9, 2) as f32))
        .collect();
    let gap_names: Vec<String> = (0..1 + rng.usize(3)).map(|i| db_name(rng, &format!("H{}", i))).collect();
    let gaps: Vec<ABlock> = gap_names
        .iter()
        .map(|n| {
            let mut b = ABlock::new(n, "GAP")
                .s("NAME", n)
                .num("TYPE", 1.0)
                .s("GROUP", "Huecos")
                .s("GROUP-GLASS", "Vidrios")
                .s("GLASS-TYPE", &glass_names[rng.usize(glass_names.len())])
                .s("GROUP-FRAME", "Marcos")
                .s("NAME-FRAME", &frame_names[rng.usize(frame_names.len())])
                .num("PORCENTAGE", rng.dec(0.0, 60.0, 0) as f32)
                .num("INF-COEF", *rng.pick(&[3.0f32, 9.0, 27.0, 50.0]));
            if rng.chance(0.6) {
                b = b.num("porcentajeIncrementoU", rng.dec(0.0, 40.0, 0) as f32);
            }
            if rng.chance(0.6) {
                b = b.num("TransmisividadJulio", rng.dec(0.05, 1.0, 2) as f32);
            }
            b
        })
        .collect();

    // schedules and conditions
    let (schedules, years) = if cfg.schedules { gen_schedule_blocks(rng, 3) } else { (vec![], vec![]) };
    let mut space_conds = vec![];
    let mut sys_conds = vec![];
    let mut cond_names: Vec<String> = vec![];
    if cfg.schedules {
        for i in 0..1 + rng.usize(2) {
            let n = format!("Uso{}_{}", i, rng.below(1000));
            cond_names.push(n.clone());
            space_conds.push(
                ABlock::new(&n, "SPACE-CONDITIONS")
                    .s("NAME", &n)
                    .s("PEOPLE-SCHEDULE", &years[rng.usize(years.len())])
                    .num("PEOPLE-HG-LAT", rng.dec(20.0, 80.0, 2) as f32)
                    .num("PEOPLE-HG-SENS", rng.dec(40.0, 120.0, 2) as f32)
                    .s("LIGHTING-SCHEDULE", &years[rng.usize(years.len())])
                    .num("AREA/PERSON", if rng.chance(0.1) { 0.0 } else { rng.dec(5.0, 40.0, 2) as f32 })
                    .num("LIGHTING-W/AREA", rng.dec(1.0, 15.0, 1) as f32)
                    .s("EQUIP-SCHEDULE", &years[rng.usize(years.len())])
                    .num("EQUIPMENT-W/AREA", rng.dec(1.0, 15.0, 1) as f32)
                    .w("INF-METHOD", "CRACK"),
            );
            let conditioned = rng.chance(0.7);
            let mut b = ABlock::new(&n, "SYSTEM-CONDITIONS").s("NAME", &n).w("TYPE", if conditioned { "CONDITIONED" } else { "UNCONDITIONED" });
            if conditioned || rng.chance(0.5) {
                b = b.s("HEAT-TEMP-SCH", &years[rng.usize(years.len())]).s("COOL-TEMP-SCH", &years[rng.usize(years.len())]);
            }
            sys_conds.push(b);
        }
    }

    // floors / spaces / walls
    let nfl = 1 + rng.usize(cfg.max_floors);
    let mut floors = vec![];
    let mut z = if rng.chance(0.2) { -(rng.dec(2.5, 3.5, 2) as f32) } else { 0.0 };
    let mut all_space_names: Vec<String> = vec![];
    for k in 0..nfl {
        let h = rng.dec(2.5, 4.2, 2) as f32;
        let mut fl = AFloor { name: format!("P{:02}", k + 1), z, height: h, multiplier: if rng.chance(0.15) { (2 + rng.usize(3)) as f32 } else { 1.0 }, spaces: vec![] };
        let ns = 1 + rng.usize(cfg.max_spaces_per_floor);
        for j in 0..ns {
            let name = format!("P{:02}_E{:02}", k + 1, j + 1);
            let outline = gen_outline(rng);
            let turned = cfg.turned_spaces && rng.chance(0.4);
            let stype = match rng.usize(6) {
                0 => "UNHABITED",
                1 => "UNCONDITIONED",
                _ => "CONDITIONED",
            };
            let conds = if cond_names.is_empty() { "Residencial".to_string() } else { cond_names[rng.usize(cond_names.len())].clone() };
            let mut sp = ASpace {
                name: name.clone(),
                outline: outline.clone(),
                x: if j > 0 || turned { rng.dec(-40.0, 40.0, 2) as f32 } else { 0.0 },
                y: if j > 0 || turned { rng.dec(-40.0, 40.0, 2) as f32 } else { 0.0 },
                azimuth: if turned { *rng.pick(&[90.0f32, 180.0, 270.0, 45.0, 30.0, 123.0]) } else { 0.0 },
                z: 0.0,
                height_attr: if cfg.odd_space_height && rng.chance(0.2) { Some(r2(h as f64 - rng.dec(0.2, 0.8, 2))) } else if rng.chance(0.8) { Some(h) } else { None },
                stype: stype.to_string(),
                inside: if rng.chance(0.8) { Some(stype == "CONDITIONED" || rng.chance(0.3)) } else { None },
                multiplier: if rng.chance(0.1) { 2.0 } else { 1.0 },
                conds: if stype == "UNHABITED" && rng.chance(0.6) { format!("NIVEL_ESTANQUEIDAD_{}", 1 + rng.usize(5)) } else { conds.clone() },
                sysconds: conds.clone(),
                spacetype: conds,
                lighting: (
                    if rng.chance(0.15) { 0.0 } else if rng.chance(0.5) { 4.4 } else { rng.dec(0.5, 25.0, 2) as f32 },
                    if rng.chance(0.15) { 0.0 } else if rng.chance(0.5) { 7.0 } else { rng.dec(0.5, 12.0, 2) as f32 },
                    if rng.chance(0.1) { 0.0 } else { 10.0 },
                ),
                walls: vec![],
                air_changes: if rng.chance(0.2) { Some(rng.dec(0.2, 2.0, 2) as f32) } else { None },
            };
            if cfg.turned_spaces && rng.chance(0.12) {
                sp.z = *rng.pick(&[0.5f32, 1.2, -0.4]);
            }
            let nv = outline.len();
            for v in 0..nv {
                let kind = rng.usize(10);
                let (btype, adiabatic, next_to) = match kind {
                    0 if !all_space_names.is_empty() => ("INTERIOR-WALL", false, Some(all_space_names[rng.usize(all_space_names.len())].clone())),
                    1 => ("INTERIOR-WALL", true, None),
                    2 if z < 0.0 => ("UNDERGROUND-WALL", false, None),
                    _ => ("EXTERIOR-WALL", false, None),
                };
                let (a, b) = (outline[v], outline[(v + 1) % nv]);
                let len = (((b.0 - a.0) as f64).powi(2) + ((b.1 - a.1) as f64).powi(2)).sqrt();
                let mut wall = AWall {
                    name: format!("{}_W{:03}", name, v + 1),
                    btype: btype.to_string(),
                    adiabatic,
                    next_to,
                    layers: layer_names[rng.usize(nl)].clone(),
                    absorptance: if rng.chance(0.08) { 0.0 } else { rng.dec(0.2, 0.9, 2) as f32 },
                    loc: WallLoc::Vertex(v + 1),
                    windows: vec![],
                };
                if btype == "EXTERIOR-WALL" && len > 1.6 && rng.chance(0.4) {
                    let ww = rng.dec(0.5, (len - 0.8).min(3.0).max(0.55), 2) as f32;
                    let wh = rng.dec(0.5, (h as f64 - 1.0).min(2.2).max(0.55), 2) as f32;
                    let with_shades = rng.chance(0.3);
                    wall.windows.push(AWindow {
                        name: format!("{}_V", wall.name),
                        gap: gap_names[rng.usize(gap_names.len())].clone(),
                        x: rng.dec(0.1, (len - ww as f64 - 0.1).max(0.11), 2) as f32,
                        y: rng.dec(0.1, (h as f64 - wh as f64 - 0.1).max(0.11), 2) as f32,
                        w: ww,
                        h: wh,
                        setback: if rng.chance(0.5) { rng.dec(0.05, 0.4, 2) as f32 } else { 0.0 },
                        overhang: if with_shades && rng.chance(0.6) { Some((rng.dec(0.0, 0.3, 2) as f32, rng.dec(0.0, 0.3, 2) as f32, ww + 0.4, rng.dec(0.2, 1.2, 2) as f32, *rng.pick(&[90.0f32, 90.0, 60.0]))) } else { None },
                        left_fin: if with_shades && rng.chance(0.5) { Some((rng.dec(0.0, 0.3, 2) as f32, rng.dec(0.0, 0.2, 2) as f32, wh, rng.dec(0.2, 1.0, 2) as f32)) } else { None },
                        right_fin: None,
                    });
                    // the right fin: none, its own, or (the symmetric recessed window) the same as the left one
                    if with_shades && rng.chance(0.5) {
                        let win = wall.windows.last_mut().unwrap();
                        win.right_fin = match win.left_fin {
                            Some(l) if rng.chance(0.4) => Some(l),
                            _ => Some((rng.dec(0.0, 0.3, 2) as f32, rng.dec(0.0, 0.2, 2) as f32, wh, rng.dec(0.2, 1.0, 2) as f32)),
                        };
                    }
                }
                sp.walls.push(wall);
            }
            // floor and roof from the outline
            sp.walls.push(AWall {
                name: format!("{}_FTER", name),
                btype: if k == 0 { "UNDERGROUND-WALL".into() } else { "INTERIOR-WALL".into() },
                adiabatic: k != 0 && all_space_names.is_empty(),
                next_to: if k != 0 && !all_space_names.is_empty() { Some(all_space_names[rng.usize(all_space_names.len())].clone()) } else { None },
                layers: layer_names[rng.usize(nl)].clone(),
                absorptance: 0.6,
                loc: WallLoc::Bottom,
                windows: vec![],
            });
            if rng.chance(0.7) {
                sp.walls.push(AWall { name: format!("{}_CUB", name), btype: "ROOF".into(), adiabatic: false, next_to: None, layers: layer_names[rng.usize(nl)].clone(), absorptance: rng.dec(0.3, 0.9, 2) as f32, loc: WallLoc::Top, windows: vec![] });
            }
            // own-polygon element in canonical position (first edge on the x axis)
            if cfg.own_polygon_walls && rng.chance(0.4) {
                let (pw, ph) = (rng.dec(1.0, 8.0, 2) as f32, rng.dec(1.0, 6.0, 2) as f32);
                // rectangle, triangle, or a trapezoid that is wider at the top (its outline reaches left of the first vertex)
                let shape = rng.usize(10);
                let poly = if shape < 5 { vec![(0.0, 0.0), (pw, 0.0), (pw, ph), (0.0, ph)] } else if shape < 7 { vec![(0.0, 0.0), (pw, 0.0), (pw * 0.5, ph)] } else { vec![(0.0, 0.0), (pw, 0.0), (pw + 1.5, ph), (-1.5, ph)] };
                let trapezoid = shape >= 7;
                let tilt = *rng.pick(&[0.0f32, 180.0, 90.0, 30.0, 45.0]);
                sp.walls.push(AWall {
                    name: format!("{}_POL", name),
                    btype: if tilt < 60.0 { "ROOF".into() } else { "EXTERIOR-WALL".into() },
                    adiabatic: false,
                    next_to: None,
                    layers: layer_names[rng.usize(nl)].clone(),
                    absorptance: 0.7,
                    loc: WallLoc::Poly { x: rng.dec(-5.0, 5.0, 2) as f32, y: rng.dec(-5.0, 5.0, 2) as f32, z: if tilt < 60.0 { h } else { rng.dec(0.0, 1.0, 2) as f32 }, azimuth: *rng.pick(&[0.0f32, 90.0, 180.0, 270.0, 37.0]), tilt, polygon: poly, location_top: tilt < 60.0 && rng.chance(0.4) },
                    windows: vec![],
                });
                // a window on a vertical element placed by its own (canonical) polygon; on the trapezoid it sits in the part
                // that lies left of the first vertex, so its X offset is negative
                if tilt == 90.0 && shape != 5 && shape != 6 && ph >= 1.6 && pw >= 1.6 && rng.chance(0.6) {
                    let wall = sp.walls.last_mut().unwrap();
                    let (wy, wh, ww) = (r2(ph as f64 * 0.55), r2(ph as f64 * 0.3), 0.8f32);
                    let wx = if trapezoid { r2(-1.5 * (wy as f64 / ph as f64) + 0.15) } else { r2(rng.dec(0.1, (pw - ww - 0.1).max(0.11) as f64, 2)) };
                    wall.windows.push(AWindow {
                        name: format!("{}_V", wall.name),
                        gap: gap_names[rng.usize(gap_names.len())].clone(),
                        x: wx,
                        y: wy,
                        w: ww,
                        h: wh,
                        setback: if rng.chance(0.5) { 0.2 } else { 0.0 },
                        overhang: None,
                        left_fin: None,
                        right_fin: None,
                    });
                }
            }
            all_space_names.push(name);
            fl.spaces.push(sp);
        }
        z += h;
        floors.push(fl);
    }

    let mut shades = vec![];
    if cfg.shades {
        for i in 0..rng.usize(4) {
            if rng.chance(0.5) {
                shades.push(AShade::Rect { name: format!("Sombra{:03}", i), x: rng.dec(-20.0, 20.0, 2) as f32, y: rng.dec(-20.0, 20.0, 2) as f32, z: rng.dec(0.0, 6.0, 2) as f32, w: rng.dec(1.0, 10.0, 2) as f32, h: rng.dec(1.0, 10.0, 2) as f32, azimuth: *rng.pick(&[0.0f32, 90.0, 180.0, 270.0, 33.0]), tilt: *rng.pick(&[90.0f32, 90.0, 0.0, 45.0, 180.0, 135.0]) });
            } else {
                // a planar quad given by its vertices
                let (x, y, z0) = (rng.dec(-20.0, 20.0, 2), rng.dec(-20.0, 20.0, 2), rng.dec(0.0, 6.0, 2));
                let (w, h) = (rng.dec(1.0, 8.0, 2), rng.dec(1.0, 6.0, 2));
                let a = rng.dec(0.0, 360.0, 0).to_radians();
                let (ux, uy) = (a.cos(), a.sin());
                let pts = if rng.chance(0.5) {
                    // vertical
                    vec![(x, y, z0), (x + w * ux, y + w * uy, z0), (x + w * ux, y + w * uy, z0 + h), (x, y, z0 + h)]
                } else {
                    // horizontal
                    vec![(x, y, z0), (x + w * ux, y + w * uy, z0), (x + w * ux - h * uy, y + w * uy + h * ux, z0), (x - h * uy, y + h * ux, z0)]
                };
                shades.push(AShade::Verts { name: format!("Sombra{:03}", i), pts: pts.into_iter().map(|p| (r2(p.0), r2(p.1), r2(p.2))).collect() });
            }
        }
    }

    let mut bridges = vec![ABlock::new("LONGITUDES_CALCULADAS", "THERMAL-BRIDGE").num("LONG-TOTAL", 0.0).num("DEFINICION", 1.0)];
    for n in ["FRENTE_FORJADO", "UNION_CUBIERTA", "ESQUINA_CONVEXA", "PILAR", "HUECO_VENTANA", "UNION_SOLERA_PAREDEXT", "OTRO_PT"] {
        if rng.chance(0.6) {
            let ty = match n {
                "PILAR" => "PILLAR",
                "HUECO_VENTANA" => "WINDOW-FRAME",
                "UNION_SOLERA_PAREDEXT" => "UNDER-EXT",
                "FRENTE_FORJADO" | "UNION_CUBIERTA" => "SLAB",
                _ => "MASONRY",
            };
            let mut b = ABlock::new(n, "THERMAL-BRIDGE").num("LONG-TOTAL", rng.dec(0.0, 200.0, 2) as f32).num("DEFINICION", 2.0).num("TTL", rng.dec(0.0, 1.0, 2) as f32).num("FRSI", rng.dec(0.2, 0.8, 2) as f32);
            if ty != "PILLAR" && ty != "WINDOW-FRAME" {
                b = b.num("ANGLE-MIN", 135.0).num("ANGLE-MAX", 225.0).w("PARTITION", if rng.chance(0.5) { "YES" } else { "BOTH" });
            }
            bridges.push(b.w("TYPE", ty));
        }
    }

    // legacy forms: attributes with a documented default are left out and the abstract building holds the default
    let mut omit: Vec<(String, String)> = vec![];
    if cfg.legacy_absent {
        let other_types = ["Residencial", "Oficina_8h_media", "Comercial_12h_alta"];
        for f in floors.iter_mut() {
            for s in f.spaces.iter_mut() {
                if rng.chance(0.5) {
                    // the SPACE-TYPE names something else than the two condition attributes
                    if rng.chance(0.7) {
                        s.spacetype = other_types[rng.usize(3)].to_string();
                    }
                    match rng.usize(3) {
                        0 => {
                            omit.push((s.name.clone(), "SPACE-CONDITIONS".into()));
                            s.conds = s.spacetype.clone();
                        }
                        1 => {
                            omit.push((s.name.clone(), "SYSTEM-CONDITIONS".into()));
                            s.sysconds = s.spacetype.clone();
                        }
                        _ => {
                            omit.push((s.name.clone(), "SPACE-CONDITIONS".into()));
                            omit.push((s.name.clone(), "SYSTEM-CONDITIONS".into()));
                            s.conds = s.spacetype.clone();
                            s.sysconds = s.spacetype.clone();
                        }
                    }
                }
                for w in s.walls.iter_mut() {
                    // an element placed by its own polygon without TILT: a ROOF is horizontal, anything else vertical
                    if let WallLoc::Poly { tilt, location_top: false, .. } = &w.loc {
                        if ((w.btype == "ROOF" && *tilt == 0.0) || (w.btype != "ROOF" && *tilt == 90.0)) && rng.chance(0.6) {
                            omit.push((w.name.clone(), "TILT".into()));
                        }
                    }
                    if (w.btype == "EXTERIOR-WALL" || w.btype == "ROOF") && rng.chance(0.25) {
                        // CONSTRUCTION without ABSORPTANCE: 0.60
                        w.absorptance = 0.6;
                        omit.push((format!("{}{:.2}", w.layers, w.absorptance), "ABSORPTANCE".into()));
                    }
                    for win in w.windows.iter() {
                        if win.overhang.is_none() && rng.chance(0.4) {
                            for a in ["OVERHANG-A", "OVERHANG-B", "OVERHANG-W", "OVERHANG-D", "OVERHANG-ANGLE"] {
                                omit.push((win.name.clone(), a.into()));
                            }
                        }
                        if win.left_fin.is_none() && rng.chance(0.4) {
                            for a in ["LEFT-FIN-A", "LEFT-FIN-B", "LEFT-FIN-H", "LEFT-FIN-D"] {
                                omit.push((win.name.clone(), a.into()));
                            }
                        }
                        if win.right_fin.is_none() && rng.chance(0.4) {
                            for a in ["RIGHT-FIN-A", "RIGHT-FIN-B", "RIGHT-FIN-H", "RIGHT-FIN-D"] {
                                omit.push((win.name.clone(), a.into()));
                            }
                        }
                        if rng.chance(0.3) {
                            omit.push((win.name.clone(), "COEFF".into()));
                        }
                    }
                }
            }
        }
    }

    ABuilding {
        deviation: if rng.chance(0.4) { 0.0 } else { rng.dec02(0.0, 359.0) as f32 },
        d_perim: if rng.chance(0.5) { rng.dec(0.3, 1.5, 2) as f32 } else { 0.0 },
        ra_perim: if rng.chance(0.5) { rng.dec(0.3, 2.5, 2) as f32 } else { 0.0 },
        materials,
        layers,
        glasses,
        frames,
        gaps,
        floors,
        shades,
        bridges,
        schedules,
        space_conds,
        sys_conds,
        zone: crate::gen::model::ZONES[rng.usize(32)].to_string(),
        dwelling: rng.chance(0.6),
        new_building: rng.chance(0.5),
        ventilation: rng.dec(10.0, 200.0, 2) as f32,
        n50_test: if rng.chance(0.3) { Some(rng.dec(0.5, 9.0, 2) as f32) } else { None },
        // a project may have no name at all
        // ... or a long one with accents and signs at any byte offset
        name: match rng.usize(12) {
            0 => String::new(),
            // (two- and three-byte characters back to back: wherever a tool cuts the text, some of these names have a
            // character straddling the cut)
            1..=4 => format!("{}Rehabilitación ñáéíóúüÑÁÉÍÓÚ – nº {} ñáéíóúüÑÁÉÍÓÚçÇ€ de edificio plurifamiliar en Ávila (ampliación)", "a".repeat(rng.usize(4)), rng.below(100)),
            _ => format!("Proyecto {}", rng.below(100_000)),
        },
        omit,
    }
}

impl ABuilding {
    /// the blocks HULC would write, in HULC's order
    pub fn blocks(&self) -> Vec<ABlock> {
        let mut out = vec![];
        out.push(
            ABlock::new("DATOS GENERALES", "GENERAL-DATA")
                .s("TYPE-HOUSING", if self.dwelling { "Unifamiliar" } else { "Terciario" })
                .s("TYPE-DEFINITION", if self.new_building { "Nuevo" } else { "Existente" })
                .s("ZONE", &self.zone)
                .num("NUM-VIVIENDAS", 1.0)
                .s("NAME-PROJECT", &self.name),
        );
        out.extend(self.materials.iter().cloned());
        out.extend(self.layers.iter().cloned());
        out.extend(self.glasses.iter().cloned());
        out.extend(self.frames.iter().cloned());
        out.extend(self.gaps.iter().cloned());
        out.push(ABlock::new("Espacio de Trabajo", "WORK-SPACE").num("WIDTH", 60.0).num("HIGHT", 60.0).num("Z", 0.0));
        for s in &self.shades {
            match s {
                AShade::Rect { name, x, y, z, w, h, azimuth, tilt } => out.push(
                    ABlock::new(name, "BUILDING-SHADE").s("BULB-TRA", "Default.bulb").num("TRAN", 0.0).num("REFL", 0.7).num("X", *x).num("Y", *y).num("Z", *z).num("HEIGHT", *h).num("WIDTH", *w).num("TILT", *tilt).num("AZIMUTH", *azimuth),
                ),
                AShade::Verts { name, pts } => {
                    let mut b = ABlock::new(name, "BUILDING-SHADE").s("BULB-TRA", "Default.bulb").num("TRAN", 0.0).num("REFL", 0.7);
                    for (i, p) in pts.iter().enumerate() {
                        b.attrs.push((format!("V{}", i + 1), AVal::P3(p.0, p.1, p.2)));
                    }
                    out.push(b);
                }
            }
        }
        // polygons first (as HULC does), then the hierarchy
        for f in &self.floors {
            out.push(polygon_block(&format!("{}_Poligono1", f.name), &[(0.0, 0.0), (1.0, 0.0), (1.0, 1.0), (0.0, 1.0)]));
            for s in &f.spaces {
                out.push(polygon_block(&format!("{}_Pol2", s.name), &s.outline));
                for w in &s.walls {
                    if let WallLoc::Poly { polygon, .. } = &w.loc {
                        out.push(polygon_block(&format!("{}_Poligono3", w.name), polygon));
                    }
                }
            }
        }
        out.push(ABlock::new("Run Period 1", "RUN-PERIOD-PD").num("END-MONTH", 12.0).num("END-DAY", 31.0));
        out.push(
            ABlock::new("Edificio", "BUILD-PARAMETERS")
                .num("LATITUDE", 40.0)
                .w("ISPENINSULAR", "YES")
                .num("AZIMUTH", self.deviation)
                .nums("HEATING-PERIOD", vec![1.0, 2.0, 3.0, 4.0, 5.0, 10.0, 11.0, 12.0])
                .w("TYPE-CASE", if self.new_building { "Nuevo" } else { "Existente" })
                .num("D-AISLAMIENTO-PERIMETRAL", self.d_perim)
                .num("RA-AISLAMIENTO-PERIMETRAL", self.ra_perim)
                .s("EXTINFO", "SI"),
        );
        let mut prev = "Ninguna".to_string();
        for f in &self.floors {
            let mut b = ABlock::new(&f.name, "FLOOR");
            if f.z != 0.0 {
                b = b.num("Z", f.z);
            }
            b = b.s("POLYGON", &format!("{}_Poligono1", f.name)).num("FLOOR-HEIGHT", f.height).num("SPACE-HEIGHT", f.height);
            if f.multiplier != 1.0 {
                b = b.num("MULTIPLIER", f.multiplier);
            }
            out.push(b.w("SHAPE", "POLYGON").s("PREVIOUS", &prev));
            prev = f.name.clone();
            for s in &f.spaces {
                let mut b = ABlock::new(&s.name, "SPACE").s("nCompleto", &s.name);
                if let Some(h) = s.height_attr {
                    b = b.num("HEIGHT", h);
                }
                if s.x != 0.0 || s.y != 0.0 {
                    b = b.num("X", s.x).num("Y", s.y);
                }
                if s.azimuth != 0.0 {
                    b = b.num("AZIMUTH", s.azimuth);
                }
                if s.z != 0.0 {
                    b = b.num("Z", s.z);
                }
                b = b.w("SHAPE", "POLYGON").s("POLYGON", &format!("{}_Pol2", s.name)).w("TYPE", &s.stype).s("SPACE-TYPE", &s.spacetype).s("SYSTEM-CONDITIONS", &s.sysconds).s("SPACE-CONDITIONS", &s.conds).num("MULTIPLIER", s.multiplier).num("MULTIPLIED", 0.0);
                if let Some(i) = s.inside {
                    b = b.w("perteneceALaEnvolventeTermica", if i { "SI" } else { "NO" });
                }
                b = b.num("POWER", s.lighting.0).num("VEEI-OBJ", s.lighting.1).num("VEEI-REF", s.lighting.2);
                if let Some(a) = s.air_changes {
                    b = b.num("AIR-CHANGES/HR", a);
                }
                out.push(b);
                for w in &s.walls {
                    let mut b = ABlock::new(&w.name, &w.btype);
                    let cons_name;
                    match w.btype.as_str() {
                        "INTERIOR-WALL" => {
                            b = b.w("INT-WALL-TYPE", if w.adiabatic { "ADIABATIC" } else { "STANDARD" });
                            if let Some(n) = &w.next_to {
                                b = b.s("NEXT-TO", n);
                            }
                            cons_name = w.layers.clone();
                        }
                        "UNDERGROUND-WALL" => {
                            b = b.num("Z-GROUND", 0.0);
                            cons_name = w.layers.clone();
                        }
                        _ => {
                            b = b.num("ABSORPTANCE", w.absorptance);
                            cons_name = format!("{}{:.2}", w.layers, w.absorptance);
                        }
                    }
                    b = b.s("CONSTRUCTION", &cons_name);
                    match &w.loc {
                        WallLoc::Vertex(n) => b = b.w("LOCATION", &format!("SPACE-V{}", n)),
                        WallLoc::Top => b = b.w("LOCATION", "TOP"),
                        WallLoc::Bottom => b = b.w("LOCATION", "BOTTOM"),
                        WallLoc::Poly { x, y, z, azimuth, tilt, location_top, .. } => {
                            b = b.num("X", *x).num("Y", *y).num("Z", *z).num("AZIMUTH", *azimuth);
                            if *location_top {
                                b = b.w("LOCATION", "TOP");
                            } else {
                                b = b.num("TILT", *tilt);
                            }
                            b = b.s("POLYGON", &format!("{}_Poligono3", w.name));
                        }
                    }
                    out.push(b);
                    let mut c = ABlock::new(&cons_name, "CONSTRUCTION").w("TYPE", "LAYERS").s("LAYERS", &w.layers);
                    if w.btype == "EXTERIOR-WALL" || w.btype == "ROOF" {
                        c = c.num("ABSORPTANCE", w.absorptance);
                    }
                    out.push(c);
                    for win in &w.windows {
                        let mut b = ABlock::new(&win.name, "WINDOW").num("X", win.x).num("Y", win.y).num("SETBACK", win.setback).num("HEIGHT", win.h).num("WIDTH", win.w).s("GAP", &win.gap).nums("COEFF", vec![1.0, 1.0, 1.0, 1.0]);
                        let (oa, ob, ow, od, oang) = win.overhang.unwrap_or((0.0, 0.0, 0.0, 0.0, 0.0));
                        b = b.num("OVERHANG-A", oa).num("OVERHANG-B", ob).num("OVERHANG-W", ow).num("OVERHANG-D", od).num("OVERHANG-ANGLE", oang);
                        let (a, bb, h, d) = win.left_fin.unwrap_or((0.0, 0.0, 0.0, 0.0));
                        b = b.num("LEFT-FIN-A", a).num("LEFT-FIN-B", bb).num("LEFT-FIN-H", h).num("LEFT-FIN-D", d);
                        let (a, bb, h, d) = win.right_fin.unwrap_or((0.0, 0.0, 0.0, 0.0));
                        b = b.num("RIGHT-FIN-A", a).num("RIGHT-FIN-B", bb).num("RIGHT-FIN-H", h).num("RIGHT-FIN-D", d);
                        out.push(b);
                    }
                }
            }
        }
        out.extend(self.space_conds.iter().cloned());
        out.extend(self.sys_conds.iter().cloned());
        out.extend(self.schedules.iter().cloned());
        out.extend(self.bridges.iter().cloned());
        for (name, attr) in &self.omit {
            for b in out.iter_mut().filter(|b| &b.name == name) {
                b.remove(attr);
            }
        }
        out
    }

    /// minimal .ctehexml around a BDL text
    pub fn ctehexml(&self, bdl: &str, systems_xml: &str) -> String {
        self.ctehexml_ext(bdl, "", systems_xml)
    }

    pub fn space_names(&self) -> Vec<String> {
        self.floors.iter().flat_map(|f| f.spaces.iter().map(|s| s.name.clone())).collect()
    }

    /// .ctehexml with extra tags inside <DatosGenerales> and system sections after the BDL text
    pub fn ctehexml_ext(&self, bdl: &str, general_extra: &str, systems_xml: &str) -> String {
        let esc = |s: &str| s.replace('&', "&amp;").replace('<', "&lt;").replace('>', "&gt;");
        format!(
            "<?xml version=\"1.0\"?>\n<CTE-HE-XML>\n    <DatosGenerales>\n        <tipoVivienda>{}</tipoVivienda>\n        <tipoDefinicion>{}</tipoDefinicion>\n        <zonaClimatica>{}</zonaClimatica>\n        <numViviendasBloque>1</numViviendasBloque>\n        <valorImpulsionAire>{:.2}</valorImpulsionAire>\n        <nomPro>{}</nomPro>\n        <pathArchivoMeteorologicoSeleccionado>C:\\ProgramasCTEyCEE\\DatosClimaticos\\GENERICOS\\zona{}.bin</pathArchivoMeteorologicoSeleccionado>\n        <ensayoPermeabilidad>{}</ensayoPermeabilidad>\n        <ValorN50Medido>{}</ValorN50Medido>\n{}    </DatosGenerales>\n    <EntradaGraficaLIDER><![CDATA[{}]]></EntradaGraficaLIDER>\n{}</CTE-HE-XML>\n",
            if self.dwelling { "Unifamiliar" } else { "Terciario" },
            if self.new_building { "Nuevo" } else { "Existente" },
            self.zone,
            self.ventilation,
            esc(&self.name),
            self.zone,
            if self.n50_test.is_some() { "SI" } else { "NO" },
            self.n50_test.unwrap_or(0.0),
            general_extra,
            bdl,
            systems_xml
        )
    }
}

pub fn polygon_block(name: &str, pts: &[(f32, f32)]) -> ABlock {
    let mut b = ABlock::new(name, "POLYGON");
    for (i, p) in pts.iter().enumerate() {
        b.attrs.push((format!("V{}", i + 1), AVal::P2(p.0, p.1)));
    }
    b
}

/// Re-spells some defined names (and every reference to them, identically) in forms a user can type
/// into HULC: doubled blanks, blanks at the ends, a tab, brackets and dots, a very long name.
/// Returns the list of (type, old, new).
pub fn oddify_names(rng: &mut Rng, blocks: &mut [ABlock], types: &[&str], share: f64) -> Vec<(String, String, String)> {
    let mut done: Vec<(String, String, String)> = vec![];
    let cands: Vec<(String, String)> = blocks.iter().filter(|b| types.contains(&b.btype.as_str())).map(|b| (b.btype.clone(), b.name.clone())).collect();
    for (ty, old) in cands {
        if !rng.chance(share) || done.iter().any(|d| d.1 == old) {
            continue;
        }
        let words: Vec<&str> = old.split(' ').collect();
        let new = match rng.usize(6) {
            0 => format!("{}  {}", words[0], words[1..].join(" ")).trim_end().to_string() + "  x",
            1 => format!("{} ", old),
            2 => format!(" {}", old),
            3 => format!("{} (tipo  B).v2", old),
            4 => format!("{}   {}", old, "muy largo ".repeat(6).trim_end()),
            _ => old.replace(' ', "  "),
        };
        if new == old || blocks.iter().any(|b| b.name == new) {
            continue;
        }
        for b in blocks.iter_mut() {
            if b.name == old {
                b.name = new.clone();
            }
            for (_, v) in b.attrs.iter_mut() {
                match v {
                    AVal::Str(s) if *s == old => *s = new.clone(),
                    AVal::StrList(l) => {
                        for s in l.iter_mut() {
                            if *s == old {
                                *s = new.clone();
                            }
                        }
                    }
                    _ => {}
                }
            }
        }
        done.push((ty, old, new));
    }
    done
}

/// Replaces some numeric attribute values of data blocks (not of the geometry) by edge values a user can
/// enter: 0, a very small and a very large number. Returns the list of (block type, attribute, value).
pub fn edge_numbers(rng: &mut Rng, blocks: &mut [ABlock], share: f64) -> Vec<(String, String, f32)> {
    const TYPES: [&str; 10] = ["MATERIAL", "GLASS-TYPE", "NAME-FRAME", "GAP", "SPACE-CONDITIONS", "SPACE", "WINDOW", "THERMAL-BRIDGE", "BUILD-PARAMETERS", "CONSTRUCTION"];
    const GEOMETRY: [&str; 14] = ["X", "Y", "Z", "HEIGHT", "WIDTH", "AZIMUTH", "TILT", "MULTIPLIER", "MULTIPLIED", "TYPE", "ANGLE", "DEFINICION", "NUM-VIVIENDAS", "Z-GROUND"];
    let mut done = vec![];
    for b in blocks.iter_mut() {
        if !TYPES.contains(&b.btype.as_str()) {
            continue;
        }
        for (k, v) in b.attrs.iter_mut() {
            if GEOMETRY.contains(&k.as_str()) {
                continue;
            }
            if let AVal::Num(x) = v {
                if rng.chance(share) {
                    *x = *rng.pick(&[0.0f32, 0.0, 0.0, 1e-6, 1e6]);
                    done.push((b.btype.clone(), k.clone(), *x));
                }
            }
        }
    }
    done
}

/// Gives the first layer set a twin whose name differs only in letter case and lets the walls that used the original
/// take the two names in turn (A, a, A, a ...): two different, well-formed definitions that sort next to each other
/// only if the comparison ignores case. Returns the two names.
pub fn case_twin_layers(b: &mut ABuilding) -> Option<(String, String)> {
    let orig = b.layers.first()?.name.clone();
    let pos = orig.char_indices().find(|(_, c)| c.is_ascii_alphabetic())?.0;
    let c = orig[pos..].chars().next()?;
    let flipped = if c.is_ascii_uppercase() { c.to_ascii_lowercase() } else { c.to_ascii_uppercase() };
    let twin = format!("{}{}{}", &orig[..pos], flipped, &orig[pos + c.len_utf8()..]);
    if b.layers.iter().any(|l| l.name == twin) {
        return None;
    }
    let mut t = b.layers[0].clone();
    t.name = twin.clone();
    b.layers.push(t);
    let mut k = 0;
    for f in b.floors.iter_mut() {
        for s in f.spaces.iter_mut() {
            for w in s.walls.iter_mut() {
                if w.layers == orig {
                    if k % 2 == 1 {
                        w.layers = twin.clone();
                    }
                    k += 1;
                }
            }
        }
    }
    if k >= 3 {
        Some((orig, twin))
    } else {
        None
    }
}
