//! Generator of the system sections of a .ctehexml as HULC writes them: the on-site production and
//! ventilation records of <DatosGenerales>, the CALENER-VyP <Definicion_Sistema> tree and the
//! CALENER-GT BDL text. Written from the file format (tags and record layouts of the shipped
//! projects and HULC's documentation of kinds), with every kind the format knows, not only the
//! ones that occur in the shipped projects.

use crate::gen::bdl::{print_blocks, ABlock, Layout};
use crate::rng::Rng;

const ELE_KINDS: [&str; 3] = ["Fotovoltaica insitu", "Eólica insitu", "Cogeneración"];
const ACS_KINDS: [&str; 1] = ["Solar Térmica ACS"];
const BOILER_KINDS: [&str; 7] = ["Convencional", "Electrica", "BajaTemperatura", "Condensacion", "Biomasa", "ACS-Electrica", "ACS-Convencional"];
const FUELS: [&str; 7] = ["Gas Natural", "Gasóleo-C", "Electricidad", "GLP", "Carbón", "Biomasa", "Biocarburante"];
const NAME_WORDS: [&str; 10] = ["caldera", "planta baja", "ACS", "30 UNIDADES HT72-340W, 10,20 Kwp", "FOTOTERMIA", "aerogenerador 5 kW", "micro-CHP", "bomba de calor", "salón", "oficina 2ª"];

fn uname(rng: &mut Rng, prefix: &str) -> String {
    format!("{}_{}_{}", prefix, NAME_WORDS[rng.usize(NAME_WORDS.len())].replace(';', ","), rng.below(1000))
}

fn esc(s: &str) -> String {
    s.replace('&', "&amp;").replace('<', "&lt;").replace('>', "&gt;")
}

/// what a generated section contains (for coverage counters)
#[derive(Default, Debug, Clone)]
pub struct SysSummary {
    pub kinds: Vec<String>,
    /// true when the section holds something the format does not know (the library may reject it)
    pub has_unknown: bool,
}

fn monthly_record(rng: &mut Rng, kinds: &[&str], sum: &mut SysSummary, allow_unknown: bool) -> String {
    let mut parts: Vec<String> = vec![];
    for _ in 0..10 {
        if rng.chance(0.3) {
            let k = if allow_unknown && rng.chance(0.03) {
                sum.has_unknown = true;
                "Mareomotriz".to_string()
            } else {
                kinds[rng.usize(kinds.len())].to_string()
            };
            sum.kinds.push(format!("onsite:{}", k));
            parts.push(k);
            parts.push(NAME_WORDS[rng.usize(NAME_WORDS.len())].to_string());
            for _ in 0..12 {
                parts.push(format!("{:.1}", rng.range_f(0.0, 3000.0)));
            }
        } else {
            parts.push("Ninguno".into());
            parts.push("Ninguno".into());
            for _ in 0..12 {
                parts.push("0.0".into());
            }
        }
    }
    parts.join(";")
}

/// extra tags for the inside of <DatosGenerales>
pub fn gen_general_extra(rng: &mut Rng, sum: &mut SysSummary, allow_unknown: bool) -> String {
    let mut s = String::new();
    // dedicated ventilation system record (28 numbers)
    if rng.chance(0.8) {
        let on = rng.chance(0.7);
        let flow = rng.dec(0.0, 4000.0, 3);
        let curve = rng.chance(0.5);
        let opts = *rng.pick(&[0.0, 0.0, 10.0, 11.0]);
        let mut d: Vec<String> = vec![];
        d.push(if on { "1" } else { "0" }.into());
        d.push(format!("{:.3}", flow));
        d.push(format!("{:.2}", rng.dec(0.0, 3000.0, 2)));
        d.push("0".into());
        d.push(format!("{:.2}", rng.dec(0.0, 5000.0, 2)));
        d.push("0.00".into());
        d.push("0.000".into());
        d.push("0.00".into());
        d.push(if curve { "0" } else { "1" }.into());
        for _ in 0..6 {
            d.push(format!("{}", rng.below(20000)));
            d.push(format!("{}", rng.below(8000)));
        }
        d.push(format!("{}", opts));
        d.push("0.0000".into());
        d.push("0.00".into());
        d.push(format!("{:.3}", flow));
        d.push("0.00".into());
        d.push("0.00".into());
        d.push(format!("{:.4}", rng.dec(0.0, 0.95, 4)));
        if rng.chance(0.05) {
            d.truncate(20); // incomplete record: no fan is imported
        }
        sum.kinds.push(format!("doas:{}{}", if on { "on" } else { "off" }, if opts > 9.0 { "+recovery" } else { "" }));
        s.push_str(&format!("        <datosVentilacion>{}</datosVentilacion>\n", d.join(";")));
    }
    let ele = rng.chance(0.6);
    let acs = rng.chance(0.5);
    s.push_str(&format!("        <valMenELE>{}</valMenELE>\n        <valMenACS>{}</valMenACS>\n", if ele { "SI" } else { "NO" }, if acs { "SI" } else { "NO" }));
    let mut dummy = SysSummary::default();
    let r = monthly_record(rng, &ELE_KINDS, if ele { sum } else { &mut dummy }, allow_unknown && ele);
    s.push_str(&format!("        <valoresMensualesELE>{}</valoresMensualesELE>\n", esc(&r)));
    let r = monthly_record(rng, &ACS_KINDS, if acs { sum } else { &mut dummy }, allow_unknown && acs);
    s.push_str(&format!("        <valoresMensualesACS>{}</valoresMensualesACS>\n        <potenciaFVInstalada>{}</potenciaFVInstalada>\n", esc(&r), rng.below(30)));
    s
}

fn tag(out: &mut String, ind: usize, name: &str, val: &str) {
    out.push_str(&format!("{}<{}>{}</{}>\n", " ".repeat(ind), name, esc(val), name));
}

fn curve_def(out: &mut String, name: &str, obj: &str, prop: &str) {
    out.push_str(&format!(
        "                <CurvaComportamiento nombre=\"{n}\">\n                    <nombre_usuario>{n}</nombre_usuario>\n                    <tipoObjeto>{o}</tipoObjeto>\n                    <tipoPropiedad>{p}</tipoPropiedad>\n                    <numeroVariablesIndependientes>1</numeroVariablesIndependientes>\n                    <nombreVI_1>Factor Carga Parcial</nombreVI_1>\n                    <minVI_1>0</minVI_1>\n                    <maxVI_1>1</maxVI_1>\n                    <coeficientes>\"1;0\"</coeficientes>\n                    <exponentes>\"0;1\"</exponentes>\n                </CurvaComportamiento>\n",
        n = name,
        o = obj,
        p = prop
    ));
}

fn gen_equipment(rng: &mut Rng, out: &mut String, curves: &mut Vec<(String, String, String)>, id: &str, sum: &mut SysSummary, allow_unknown: bool) {
    let ind = 24;
    let q = |s: &str| format!("\"{}\"", s);
    let kinds = ["EQ_Caldera", "EQ_CalefaccionElectrica", "EQ_ED_AireAire_SF", "EQ_ED_AireAire_BDC", "EQ_ED_AireAgua_BDC", "EQ_ED_UnidadExterior", "EQ_RendimientoCte", "EQ_Acumulador_AC"];
    let mut kind = kinds[rng.usize(kinds.len())].to_string();
    if allow_unknown && rng.chance(0.02) {
        kind = "EQ_PilaCombustible".into();
        sum.has_unknown = true;
    }
    out.push_str(&format!("{}<{} nombre=\"{}\">\n", " ".repeat(ind), kind, id));
    let mut label = kind.clone();
    let mut cv = |out: &mut String, prop: &str, obj: &str, suffix: &str, curves: &mut Vec<(String, String, String)>| {
        let n = format!("{}-{}-{}", prop, obj, suffix);
        tag(out, ind + 4, prop, &q(&n));
        curves.push((n, obj.to_string(), prop.to_string()));
    };
    match kind.as_str() {
        "EQ_Caldera" => {
            let bk = BOILER_KINDS[rng.usize(BOILER_KINDS.len())];
            label = format!("EQ_Caldera-{}", bk);
            tag(out, ind + 4, "nombre_usuario", &format!("{}_EQ_Caldera-{}-Defecto", id, bk));
            tag(out, ind + 4, "capNom", &format!("{:.2}", rng.dec(1.0, 500.0, 2)));
            tag(out, ind + 4, "renNom", &format!("{:.2}", rng.dec(0.5, 1.1, 2)));
            tag(out, ind + 4, "tipoEnergia", &q(FUELS[rng.usize(FUELS.len())]));
            out.push_str(&format!("{}<tipoCaldera/>\n", " ".repeat(ind + 4)));
            cv(out, "cap_T", "EQ_Caldera", "unidad", curves);
            cv(out, "ren_T", "EQ_Caldera", "unidad", curves);
            if rng.chance(0.9) {
                cv(out, "ren_FCP_Potencia", "EQ_Caldera", &format!("{}-Defecto", bk), curves);
            }
            cv(out, "ren_FCP_Tiempo", "EQ_Caldera", "unidad", curves);
        }
        "EQ_CalefaccionElectrica" => {
            tag(out, ind + 4, "nombre_usuario", &uname(rng, id));
            tag(out, ind + 4, "tipoEnergia", &q("Electricidad"));
            tag(out, ind + 4, "capNom", &format!("{:.2}", rng.dec(0.0, 50.0, 2)));
            if rng.chance(0.8) {
                tag(out, ind + 4, "conNom", &format!("{:.2}", rng.dec(0.0, 50.0, 2)));
            }
            tag(out, ind + 4, "dtTermostato", "1");
            cv(out, "con_FCP", "EQ_CalefaccionElectrica", "Defecto", curves);
        }
        "EQ_ED_AireAire_SF" | "EQ_ED_AireAire_BDC" | "EQ_ED_UnidadExterior" => {
            tag(out, ind + 4, "nombre_usuario", &uname(rng, id));
            tag(out, ind + 4, "tipoEnergia", &q("Electricidad"));
            tag(out, ind + 4, "capTotRefNom", &format!("{:.2}", rng.dec(0.0, 100.0, 2)));
            tag(out, ind + 4, "capSenRefNom", &format!("{:.2}", rng.dec(0.0, 80.0, 2)));
            tag(out, ind + 4, "conRefNom", &format!("{:.2}", rng.dec(0.0, 40.0, 2)));
            if kind != "EQ_ED_AireAire_SF" {
                tag(out, ind + 4, "capCalNom", &format!("{:.2}", rng.dec(0.0, 100.0, 2)));
                tag(out, ind + 4, "conCalNom", &format!("{:.2}", rng.dec(0.0, 40.0, 2)));
            }
            if kind != "EQ_ED_UnidadExterior" {
                tag(out, ind + 4, "vImpulsionNom", &format!("{:.2}", rng.dec(100.0, 9000.0, 2)));
            }
            tag(out, ind + 4, "multiplicador", &format!("{}", 1 + rng.below(3)));
            for p in ["capTotRef_T", "capTotRef_FCP", "capSenRef_T", "conRef_T", "conRef_FCP"] {
                cv(out, p, &kind, "Defecto", curves);
            }
            if kind != "EQ_ED_AireAire_SF" {
                for p in ["capCal_T", "conCal_T", "conCal_FCP"] {
                    cv(out, p, &kind, "Defecto", curves);
                }
            }
        }
        "EQ_ED_AireAgua_BDC" => {
            tag(out, ind + 4, "nombre_usuario", &uname(rng, id));
            tag(out, ind + 4, "tipoEnergia", &q("Electricidad"));
            tag(out, ind + 4, "capNom", &format!("{:.2}", rng.dec(1.0, 100.0, 2)));
            tag(out, ind + 4, "conNom", &format!("{:.2}", rng.dec(0.0, 40.0, 2)));
            tag(out, ind + 4, "capCalNom", &format!("{:.2}", rng.dec(0.0, 100.0, 2)));
            tag(out, ind + 4, "conCalNom", &format!("{:.2}", rng.dec(0.0, 40.0, 2)));
            for p in ["cap_T", "con_T", "con_FCP"] {
                cv(out, p, &kind, "Defecto", curves);
            }
        }
        "EQ_RendimientoCte" => {
            tag(out, ind + 4, "nombre_usuario", &uname(rng, id));
            let (c, r) = (rng.chance(0.7), rng.chance(0.6));
            tag(out, ind + 4, "daCal", if c { "true" } else { "false" });
            tag(out, ind + 4, "tipoEnergiaCal", FUELS[rng.usize(FUELS.len())]);
            tag(out, ind + 4, "renCal", &format!("{:.2}", rng.dec(0.5, 4.0, 2)));
            tag(out, ind + 4, "daRef", if r { "true" } else { "false" });
            tag(out, ind + 4, "tipoEnergiaRef", "Electricidad");
            tag(out, ind + 4, "renRef", &format!("{:.2}", rng.dec(1.0, 5.0, 2)));
            tag(out, ind + 4, "vVentilacion", "0");
        }
        "EQ_Acumulador_AC" => {
            tag(out, ind + 4, "nombre_usuario", &uname(rng, id));
            tag(out, ind + 4, "Volumen", &format!("{:.1}", rng.dec(30.0, 3000.0, 1)));
            tag(out, ind + 4, "UA", &format!("{:.2}", rng.dec(0.1, 20.0, 2)));
            tag(out, ind + 4, "tConsignaBaja", "60");
            tag(out, ind + 4, "tConsignaAlta", "80");
            tag(out, ind + 4, "temperaturaEntrada", &format!("{:.4}", rng.dec(8.0, 18.0, 4)));
            tag(out, ind + 4, "temperaturaAmbiente", "25");
        }
        _ => {
            tag(out, ind + 4, "nombre_usuario", &uname(rng, id));
        }
    }
    sum.kinds.push(format!("eq:{}", label));
    out.push_str(&format!("{}</{}>\n", " ".repeat(ind), kind));
}

fn gen_terminal(rng: &mut Rng, out: &mut String, id: &str, zones: &[String], sum: &mut SysSummary, allow_unknown: bool) {
    let ind = 24;
    let mut kind = ["UT_AguaCaliente", "UT_ED_UnidadInterior", "UT_ImpulsionAire"][rng.usize(3)].to_string();
    if allow_unknown && rng.chance(0.02) {
        kind = "UT_SueloRadiante".into();
        sum.has_unknown = true;
    }
    out.push_str(&format!("{}<{} nombre=\"{}\">\n", " ".repeat(ind), kind, id));
    tag(out, ind + 4, "nombre_usuario", &uname(rng, id));
    let z = if zones.is_empty() { "P01_E01".to_string() } else { zones[rng.usize(zones.len())].clone() };
    tag(out, ind + 4, "zona", &format!("\"{}\"", z));
    match kind.as_str() {
        "UT_AguaCaliente" => tag(out, ind + 4, "capNom", &format!("{:.2}", rng.dec(0.1, 30.0, 2))),
        "UT_ED_UnidadInterior" => {
            tag(out, ind + 4, "capTotRefNom", &format!("{:.2}", rng.dec(0.1, 30.0, 2)));
            tag(out, ind + 4, "capSenRefNom", &format!("{:.2}", rng.dec(0.1, 30.0, 2)));
            tag(out, ind + 4, "capCalNom", &format!("{:.2}", rng.dec(0.1, 30.0, 2)));
            tag(out, ind + 4, "vImpulsionNom", &format!("{:.1}", rng.dec(50.0, 3000.0, 1)));
            tag(out, ind + 4, "vVentilacion", "0");
        }
        _ => tag(out, ind + 4, "vImpulsionNom", &format!("{:.1}", rng.dec(50.0, 3000.0, 1))),
    }
    if rng.chance(0.5) {
        tag(out, ind + 4, "multiplicador", &format!("{}", 1 + rng.below(4)));
    }
    sum.kinds.push(format!("ut:{}", kind));
    out.push_str(&format!("{}</{}>\n", " ".repeat(ind), kind));
}

/// <Definicion_Sistema> … </Definicion_Sistema>
pub fn gen_vyp(rng: &mut Rng, zones: &[String], sum: &mut SysSummary, allow_unknown: bool) -> String {
    let kinds = ["SIS_Acs", "SIS_Mixto", "SIS_CalefaccionPorAgua", "SIS_ClimatizacionUnizona", "SIS_Conductos", "SIS_Conductos2", "SIS_Autonomo", "SIS_Autonomo2"];
    let mut systems = String::new();
    let mut curves: Vec<(String, String, String)> = vec![];
    let n = 1 + rng.usize(4);
    for i in 0..n {
        let mut kind = kinds[rng.usize(kinds.len())].to_string();
        if allow_unknown && rng.chance(0.02) {
            kind = "SIS_Geotermia".into();
            sum.has_unknown = true;
        }
        let id = format!("SIS{}", i + 1);
        systems.push_str(&format!("                <{} nombre=\"{}\">\n", kind, id));
        tag(&mut systems, 20, "nombre_usuario", &uname(rng, &id));
        if rng.chance(0.8) {
            tag(&mut systems, 20, "multiplicador", &format!("{}", 1 + rng.below(3)));
        }
        match kind.as_str() {
            "SIS_Acs" => tag(&mut systems, 20, "tImpulsion", "60.00"),
            "SIS_Mixto" => {
                tag(&mut systems, 20, "tImpulsionCal", &format!("{:.2}", rng.dec(35.0, 85.0, 2)));
                tag(&mut systems, 20, "tImpulsionACS", "60.00");
            }
            "SIS_CalefaccionPorAgua" => tag(&mut systems, 20, "tImpulsion", &format!("{:.2}", rng.dec(35.0, 85.0, 2))),
            "SIS_ClimatizacionUnizona" => {
                let z = if zones.is_empty() { "P01_E01".to_string() } else { zones[rng.usize(zones.len())].clone() };
                tag(&mut systems, 20, "zona", &z);
                if rng.chance(0.3) {
                    tag(&mut systems, 20, "vVentilacion", &format!("{:.1}", rng.dec(0.0, 500.0, 1)));
                }
            }
            _ => {
                let z = if zones.is_empty() { "P01_E01".to_string() } else { zones[rng.usize(zones.len())].clone() };
                tag(&mut systems, 20, "zonaControl", &format!("\"{}\"", z));
                tag(&mut systems, 20, "vVentilacion", &format!("{:.1}", rng.dec(0.0, 5000.0, 1)));
                tag(&mut systems, 20, "vRetorno", &format!("{:.1}", rng.dec(0.0, 5000.0, 1)));
                if kind.ends_with('2') || rng.chance(0.3) {
                    tag(&mut systems, 20, "recuperacionCalor", *rng.pick(&["\"Sí tiene\"", "\"No tiene\"", "Si", "Sí", "No"]));
                    tag(&mut systems, 20, "eficienciaRecuperador", &format!("{:.2}", rng.dec(0.0, 0.95, 2)));
                    tag(&mut systems, 20, "enfriamientoGratuito", *rng.pick(&["\"Control por temperatura\"", "\"Control por entalpía\"", "\"No tiene\""]));
                }
            }
        }
        // equipment
        systems.push_str("                    <equipos>\n");
        for e in 0..1 + rng.usize(3) {
            gen_equipment(rng, &mut systems, &mut curves, &format!("{}_EQ{}", id, e + 1), sum, allow_unknown);
        }
        systems.push_str("                    </equipos>\n");
        // terminal units for everything that is not single zone / DHW only (and, rarely, missing)
        let wants_ut = !matches!(kind.as_str(), "SIS_Acs" | "SIS_ClimatizacionUnizona");
        if wants_ut && !(allow_unknown && rng.chance(0.03)) {
            systems.push_str("                    <unidades_terminales>\n");
            for u in 0..1 + rng.usize(4) {
                gen_terminal(rng, &mut systems, &format!("{}_UT{}", id, u + 1), zones, sum, allow_unknown);
            }
            systems.push_str("                    </unidades_terminales>\n");
        } else if wants_ut {
            sum.has_unknown = true;
        }
        let wants_dhw = kind == "SIS_Acs" || (kind == "SIS_Mixto" && rng.chance(0.9));
        if wants_dhw && !(allow_unknown && kind == "SIS_Acs" && rng.chance(0.03)) {
            systems.push_str("                    <demandas>\n");
            for d in 0..1 + rng.usize(2) {
                systems.push_str(&format!("                        <DemandaACS nombre=\"{}_ACS{}\">\n", id, d + 1));
                tag(&mut systems, 28, "perfilDiario", *rng.pick(&["Demanda_Hor", "1/24"]));
                tag(&mut systems, 28, "conACSDiario", &format!("{}", rng.below(3000)));
                tag(&mut systems, 28, "TUso", "60");
                tag(&mut systems, 28, "TRed", &format!("{:.13}", rng.range_f(8.0, 18.0)));
                tag(&mut systems, 28, "nombre_usuario", &format!("{}_ACS{}_Demanda_de_ACS", id, d + 1));
                systems.push_str("                        </DemandaACS>\n");
            }
            systems.push_str("                    </demandas>\n");
        } else if kind == "SIS_Acs" {
            sum.has_unknown = true;
        }
        sum.kinds.push(format!("sis:{}", kind));
        systems.push_str(&format!("                </{}>\n", kind));
    }
    curves.sort();
    curves.dedup();
    let mut out = String::from("    <Definicion_Sistema>\n        <elementos>\n            <FactoresDeCorreccion>\n");
    for (n, o, p) in &curves {
        curve_def(&mut out, n, o, p);
    }
    out.push_str("            </FactoresDeCorreccion>\n            <Sistemas>\n");
    out.push_str(&systems);
    out.push_str("            </Sistemas>\n        </elementos>\n    </Definicion_Sistema>\n");
    out
}

/// a small integer code, written bare (as in the shipped files) or quoted
fn code(rng: &mut Rng, b: ABlock, attr: &str, n: u64) -> ABlock {
    let v = rng.below(n);
    if rng.chance(0.5) {
        b.num(attr, v as f32)
    } else {
        b.s(attr, &format!("{}", v))
    }
}

/// CALENER-GT section: BDL text of loops, pumps, plant equipment, air systems and zones
pub fn gen_gt(rng: &mut Rng, spaces: &[String], sum: &mut SysSummary, allow_unknown: bool) -> String {
    let mut blocks: Vec<ABlock> = vec![];
    let meters = ["Electricidad", "Gas Natural", "Gasóleo", "Biomasa"];
    for m in meters.iter().take(1 + rng.usize(4)) {
        blocks.push(ABlock::new(m, if *m == "Electricidad" { "ELEC-METER" } else { "FUEL-METER" }).w("TYPE", if *m == "Electricidad" { "UTILITY" } else { "NATURAL-GAS" }));
    }
    // pumps
    let np = 1 + rng.usize(3);
    let pumps: Vec<String> = (0..np).map(|i| format!("Bomba {}", i + 1)).collect();
    for p in &pumps {
        let mut b = ABlock::new(p, "PUMP").w("CAP-CTRL", *rng.pick(&["ONE_SPEED-PUMP", "TWO-SPEED-PUMP", "VAR-SPEED-PUMP"])).num("C-C-FLOW", rng.dec(100.0, 9000.0, 1) as f32).num("HEAD", rng.dec(1.0, 30.0, 1) as f32);
        if rng.chance(0.5) {
            b = b.num("MECH-EFF", rng.dec(0.4, 0.9, 2) as f32).num("MOTOR-EFF", rng.dec(0.6, 0.95, 2) as f32);
        }
        sum.kinds.push("gt:PUMP".into());
        blocks.push(b);
    }
    // loops
    let loop_kinds = ["PIPE2", "DHW", "CHW", "HW", "WLHP", "CW"];
    let nl = 1 + rng.usize(5);
    let mut loops: Vec<(String, String)> = vec![];
    for i in 0..nl {
        let k = loop_kinds[rng.usize(loop_kinds.len())];
        let name = format!("Circuito {} {}", k, i + 1);
        let mut b = ABlock::new(&name, "CIRCULATION-LOOP").w("TYPE", k);
        if rng.chance(0.6) {
            b = b.s("LOOP-PUMP", &pumps[rng.usize(np)]);
        }
        if rng.chance(0.5) {
            b = b.num("HEAT-SETPT-T", rng.dec(35.0, 85.0, 1) as f32);
        }
        if rng.chance(0.5) {
            b = b.num("COOL-SETPT-T", rng.dec(5.0, 12.0, 1) as f32);
        }
        if k == "DHW" {
            b = b.num("C-C-FLOW", rng.dec(10.0, 900.0, 1) as f32).num("DHW-INLET-T", rng.dec(8.0, 18.0, 1) as f32);
        }
        sum.kinds.push(format!("gt:LOOP:{}", k));
        loops.push((name, k.to_string()));
        blocks.push(b);
    }
    let any_loop = |rng: &mut Rng, loops: &Vec<(String, String)>| loops[rng.usize(loops.len())].0.clone();
    // plant equipment
    for i in 0..rng.usize(5) {
        let which = rng.usize(if allow_unknown { 7 } else { 6 });
        let b = match which {
            0 => {
                let k = *rng.pick(&["ELEC-OPEN-CENT", "ELEC-HERM-CENT", "ELEC-OPEN-REC", "ELEC-HERM-REC", "ELEC-HTREC", "ABSOR-1", "ABSOR-2", "GAS-ABSOR", "ENGINE", "HEAT-PUMP", "LOOP-TO-LOOP-HP"]);
                let mut b = ABlock::new(&format!("Enfriadora {}", i), "CHILLER")
                    .w("TYPE", k)
                    .w("CONDENSER-TYPE", *rng.pick(&["AIR-COOLED", "WATER-COOLED", "REMOTE-AIR-COOLED", "REMOTE-EVAP-COOLED"]))
                    .num("C-C-CAPACITY", rng.dec(5.0, 900.0, 1) as f32)
                    .num("C-NUM-OF-UNITS", rng.dec(1.5, 6.0, 2) as f32)
                    .s("CHW-LOOP", &any_loop(rng, &loops));
                if rng.chance(0.5) {
                    b = b.num("C-IPLV", rng.dec(1.0, 7.0, 2) as f32).num("C-DESIGN-KW", rng.dec(5.0, 900.0, 1) as f32).num("C-COP", rng.dec(1.5, 5.0, 2) as f32).s("HW-LOOP", &any_loop(rng, &loops));
                }
                if rng.chance(0.3) {
                    b = b.s("CW-LOOP", &any_loop(rng, &loops)).s("FUEL-METER", "Gas Natural");
                }
                sum.kinds.push(format!("gt:CHILLER:{}", k));
                b
            }
            1 => {
                let mut b = ABlock::new(&format!("Caldera {}", i), "BOILER").w("TYPE", *rng.pick(&["HW-BOILER", "ELEC-HW-BOILER", "HW-BOILER-W/DRAFT"])).num("C-C-CAPACITY", rng.dec(5.0, 900.0, 1) as f32).s("HW-LOOP", &any_loop(rng, &loops));
                if rng.chance(0.7) {
                    b = if rng.chance(0.5) { b.num("C-C-SUBTYPE", (1 + rng.below(5)) as f32) } else { b.s("C-C-SUBTYPE", &format!("{}", 1 + rng.below(5))) };
                }
                if rng.chance(0.5) {
                    b = b.num("C-THERM-EFF-MAX", rng.dec(0.6, 1.08, 2) as f32).num("C-AFUE", rng.dec(0.6, 1.0, 2) as f32).s("FUEL-METER", meters[rng.usize(4)]);
                }
                if rng.chance(0.3) {
                    b = b.s("HW-PUMP", &pumps[rng.usize(np)]);
                }
                sum.kinds.push("gt:BOILER".into());
                b
            }
            2 => {
                let k = *rng.pick(&["GAS", "ELEC", "HEAT-PUMP"]);
                let mut b = ABlock::new(&format!("Calentador ACS {}", i), "DW-HEATER").w("TYPE", k).num("C-C-CAPACITY", rng.dec(1.0, 200.0, 1) as f32).s("DHW-LOOP", &any_loop(rng, &loops));
                if rng.chance(0.5) {
                    b = code(rng, b, "C-CATEGORY", 2).num("TANK-VOLUME", rng.dec(30.0, 3000.0, 0) as f32);
                }
                if rng.chance(0.3) {
                    b = b.num("TANK-UA", rng.dec(0.5, 20.0, 2) as f32).num("C-STBY-LOSS-FRAC", rng.dec(0.5, 3.0, 2) as f32).num("C-ENERGY-FACTOR", rng.dec(0.5, 1.0, 2) as f32).s("DHW-PUMP", &pumps[rng.usize(np)]);
                }
                sum.kinds.push(format!("gt:DW-HEATER:{}", k));
                b
            }
            3 => {
                let mut b = ABlock::new(&format!("Torre {}", i), "HEAT-REJECTION").w("TYPE", *rng.pick(&["OPEN-TWR", "OPEN-TWR&HX", "FLUID-COOLER", "DRYCOOLER"])).num("C-C-CAPACITY", rng.dec(5.0, 900.0, 1) as f32).num("FAN-KW/CELL", rng.dec(0.1, 20.0, 2) as f32).s("CW-LOOP", &any_loop(rng, &loops));
                if rng.chance(0.5) {
                    b = b.num("NUMBER-OF-CELLS", (1 + rng.below(4)) as f32).num("SPRAY-KW/CELL", rng.dec(0.1, 5.0, 2) as f32).s("CW-PUMP", &pumps[rng.usize(np)]);
                }
                sum.kinds.push("gt:HEAT-REJECTION".into());
                b
            }
            4 => {
                let mut b = ABlock::new(&format!("Generador {}", i), "ELEC-GENERATOR").w("TYPE", *rng.pick(&["ENGINE-GENERATOR", "GAS-TURBINE-GENERATOR", "PV-ARRAY"])).num("CAPACITY", rng.dec(1.0, 500.0, 1) as f32);
                if rng.chance(0.5) {
                    b = b.num("C-C-HIR", rng.dec(0.2, 0.5, 2) as f32).s("FUEL-METER", meters[rng.usize(4)]).s("EXH-LOOP", &any_loop(rng, &loops));
                }
                if rng.chance(0.3) {
                    b = b.s("CW-LOOP", &any_loop(rng, &loops)).s("JAC-LOOP", &any_loop(rng, &loops));
                }
                sum.kinds.push("gt:ELEC-GENERATOR".into());
                b
            }
            5 => {
                let k = *rng.pick(&["LAKE/WELL", "VERT-WELL-NEW", "HORIZ-STRAIGHT-LOOP", "HORIZ-SLINKY-LOOP"]);
                sum.kinds.push("gt:GROUND-LOOP-HX".into());
                ABlock::new(&format!("Intercambiador terreno {}", i), "GROUND-LOOP-HX").w("TYPE", k).s("CIRCULATION-LOOP", &any_loop(rng, &loops)).s("LOOP-TEMP-SCH", "Temperatura terreno")
            }
            _ => {
                sum.kinds.push("gt:other-block".into());
                sum.has_unknown = true;
                ABlock::new(&format!("Acumulación {}", i), *rng.pick(&["THERMAL-STORAGE", "PV-MODULE", "CONDENSING-UNIT"])).w("TYPE", "GENERIC").num("CAPACITY", rng.dec(1.0, 50.0, 1) as f32)
            }
        };
        blocks.push(b);
    }
    // air-side systems with their zones
    let sys_kinds = ["PSZ", "PMZS", "PVAVS", "PVVT", "SZRH", "VAVS", "RHFS", "DDS", "PTAC", "HP", "FC", "UVT", "UHT", "FPH", "EVAP-COOL", "CBVAV", "SUM"];
    let ns = 1 + rng.usize(3);
    let mut zone_no = 0;
    for i in 0..ns {
        let k = sys_kinds[rng.usize(sys_kinds.len())];
        let mut b = ABlock::new(&format!("Sistema {} {}", k, i + 1), "SYSTEM").w("TYPE", k);
        if rng.chance(0.7) {
            b = b.num("C-C-SUPPLY-FLOW", rng.dec(100.0, 20000.0, 0) as f32);
            if rng.chance(0.5) {
                b = b.num("C-C-SUP-KW/FLOW", rng.dec(0.01, 1.0, 3) as f32);
            } else {
                b = b.num("C-C-SUPPLY-KW", rng.dec(0.1, 15.0, 2) as f32);
            }
        }
        if rng.chance(0.3) {
            b = b.num("RETURN-FLOW", rng.dec(100.0, 20000.0, 0) as f32).num("C-C-RETURN-KW", rng.dec(0.1, 15.0, 2) as f32);
        }
        if rng.chance(0.4) {
            b = b.s("FAN-SCHEDULE", "Horario ventiladores").s("HEATING-SCHEDULE", "Horario calefacción").s("COOLING-SCHEDULE", "Horario refrigeración").num("MIN-SUPPLY-T", 13.0).num("MAX-SUPPLY-T", 35.0);
        }
        b = b.num("C-C-COOL-CAP", rng.dec(0.0, 200.0, 1) as f32).num("C-C-HEAT-CAP", rng.dec(0.0, 200.0, 1) as f32);
        if rng.chance(0.5) {
            b = b.num("C-C-COOL-SH-CAP", rng.dec(0.0, 150.0, 1) as f32).num("C-C-EER", rng.dec(1.5, 5.0, 2) as f32);
        }
        if rng.chance(0.4) {
            b = b.s("CHW-LOOP", &any_loop(rng, &loops)).num("C-C-CHW-COIL-Q", rng.dec(1.0, 100.0, 1) as f32);
        }
        // heat sources: 0 n/a, 1 electric, 2 hot water loop, 3 DHW loop, 4 heat pump, 5 gas heat pump, 6 furnace, 7 none
        for (attr, p) in [("C-C-HEAT-SOURCE", 0.8), ("C-C-ZONE-H-SOUR", 0.4), ("C-C-PREHEAT-SOURCE", 0.3), ("C-C-BBRD-SOUR", 0.3)] {
            if rng.chance(p) {
                let mut src = rng.below(8);
                if !allow_unknown && (src == 0 || src == 7) {
                    src = 1;
                }
                b = b.num(attr, src as f32);
                match src {
                    2 => {
                        if !(allow_unknown && rng.chance(0.1)) {
                            b = b.s("HW-LOOP", &any_loop(rng, &loops));
                        } else {
                            sum.has_unknown = true;
                        }
                    }
                    3 => b = b.s("DHW-LOOP", &any_loop(rng, &loops)),
                    4 | 5 => {
                        if !(allow_unknown && rng.chance(0.1)) {
                            b = b.num("C-C-COP", rng.dec(1.5, 5.0, 2) as f32);
                        } else {
                            sum.has_unknown = true;
                        }
                    }
                    6 => b = b.num("C-C-FURNACE-HIR", rng.dec(1.0, 1.5, 2) as f32).num("C-C-FURNACE-AUX", rng.dec(0.0, 1.0, 2) as f32),
                    0 | 7 => sum.has_unknown = true,
                    _ => {}
                }
                sum.kinds.push(format!("gt:heat-source:{}", src));
            }
        }
        if rng.chance(0.3) {
            b = b.num("C-C-PREHEAT-CAP", rng.dec(0.0, 50.0, 1) as f32).s("PHW-LOOP", &any_loop(rng, &loops));
        }
        if rng.chance(0.3) {
            b = b.s("BBRD-LOOP", &any_loop(rng, &loops)).num("BBRD-COIL-DT", rng.dec(5.0, 20.0, 1) as f32);
        }
        if rng.chance(0.3) {
            b = code(rng, b, "C-C-ENF-GRAT", 3);
            b = code(rng, b, "C-C-OA-CONTROL", 2);
        }
        if rng.chance(0.3) {
            b = b.w("RECOVER-EXHAUST", *rng.pick(&["YES", "NO"])).num("ERV-SENSIBLE-EFF", rng.dec(0.3, 0.9, 2) as f32);
        }
        let nz = 1 + rng.usize(3);
        let zone_names: Vec<String> = (0..nz).map(|j| format!("Zona {}", zone_no + j + 1)).collect();
        if rng.chance(0.5) {
            b = b.s("CONTROL-ZONE", &zone_names[0]);
        }
        sum.kinds.push(format!("gt:SYSTEM:{}", k));
        blocks.push(b);
        for zn in &zone_names {
            zone_no += 1;
            let sp = if spaces.is_empty() { "P01_E01".to_string() } else { spaces[rng.usize(spaces.len())].clone() };
            let mut z = ABlock::new(zn, "ZONE").w("TYPE", *rng.pick(&["CONDITIONED", "CONDITIONED", "PLENUM", "UNCONDITIONED"])).s("SPACE", &sp);
            if rng.chance(0.5) {
                z = code(rng, z, "C-C-PROP-ZR-1", 2).num("C-C-EXH-FLOW", rng.dec(0.0, 900.0, 0) as f32).num("C-C-EXH-KW", rng.dec(0.0, 2.0, 2) as f32);
            }
            if rng.chance(0.6) {
                z = code(rng, z, "C-C-OA-MET-DEF", 3).num("C-C-OA-FLOW", rng.dec(0.0, 900.0, 0) as f32).num("C-C-OA-FLOW/PER", rng.dec(0.0, 60.0, 1) as f32);
            }
            if rng.chance(0.5) {
                z = z.s("HEAT-TEMP-SCH", "Consigna calefacción").s("COOL-TEMP-SCH", "Consigna refrigeración").num("C-C-ASSIG-FLOW", rng.dec(50.0, 5000.0, 0) as f32);
            }
            if rng.chance(0.5) {
                z = z.num("C-C-COOL-CAP", rng.dec(0.0, 50.0, 1) as f32).num("C-C-COOL-SH-CAP", rng.dec(0.0, 40.0, 1) as f32).num("C-C-HEAT-CAP", rng.dec(0.0, 50.0, 1) as f32);
            }
            sum.kinds.push("gt:ZONE".into());
            blocks.push(z);
        }
    }
    let mut lay = if rng.chance(0.5) { Layout::hulc() } else { Layout::random(rng) };
    lay.legacy_preamble = false;
    let text = print_blocks(rng, &blocks, &lay);
    format!("    <Definicion_Sistema_CALENER_GT>\n<![CDATA[$ ** Performance Curves **\n$ *********************************************************\n{}\n]]>\n    </Definicion_Sistema_CALENER_GT>\n", text)
}

/// (extra tags of DatosGenerales, system sections, summary)
pub fn gen_systems(rng: &mut Rng, spaces: &[String], allow_unknown: bool) -> (String, String, SysSummary) {
    let mut sum = SysSummary::default();
    let extra = if rng.chance(0.85) { gen_general_extra(rng, &mut sum, allow_unknown) } else { String::new() };
    let mut sys = String::new();
    if rng.chance(0.7) {
        sys.push_str(&gen_vyp(rng, spaces, &mut sum, allow_unknown));
    }
    if rng.chance(0.5) {
        sys.push_str(&gen_gt(rng, spaces, &mut sum, allow_unknown));
    }
    (extra, sys, sum)
}
