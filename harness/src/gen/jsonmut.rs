//! M-json: structural edits of a `serde_json::Value` (the JSON tree of a model)

use serde_json::Value;

use crate::rng::Rng;

#[derive(Clone, Debug)]
pub enum Step {
    Key(String),
    Idx(usize),
}
pub type Path = Vec<Step>;

fn walk(v: &Value, path: &mut Path, out: &mut Vec<(Path, u8)>) {
    // kinds: 0 object, 1 array, 2 number, 3 uuid string, 4 other string, 5 bool/null
    let kind = match v {
        Value::Object(_) => 0,
        Value::Array(_) => 1,
        Value::Number(_) => 2,
        Value::String(s) => {
            if s.len() == 36 && s.as_bytes()[8] == b'-' && s.as_bytes()[13] == b'-' {
                3
            } else {
                4
            }
        }
        _ => 5,
    };
    out.push((path.clone(), kind));
    match v {
        Value::Object(o) => {
            for (k, c) in o {
                path.push(Step::Key(k.clone()));
                walk(c, path, out);
                path.pop();
            }
        }
        Value::Array(a) => {
            for (i, c) in a.iter().enumerate() {
                path.push(Step::Idx(i));
                walk(c, path, out);
                path.pop();
            }
        }
        _ => {}
    }
}

fn get_mut<'a>(v: &'a mut Value, path: &[Step]) -> Option<&'a mut Value> {
    let mut cur = v;
    for s in path {
        cur = match s {
            Step::Key(k) => cur.get_mut(k.as_str())?,
            Step::Idx(i) => cur.get_mut(*i)?,
        };
    }
    Some(cur)
}

pub fn path_str(p: &[Step]) -> String {
    let mut s = String::from("$");
    for e in p {
        match e {
            Step::Key(k) => {
                s.push('.');
                s.push_str(k)
            }
            Step::Idx(i) => s.push_str(&format!("[{}]", i)),
        }
    }
    s
}

/// shape of a path with indices and uuid keys removed (used as the class of an edit)
pub fn path_class(p: &[Step]) -> String {
    let mut s = String::new();
    for e in p {
        match e {
            Step::Key(k) => {
                if k.len() == 36 && k.as_bytes()[8] == b'-' {
                    s.push_str(".<id>")
                } else {
                    s.push('.');
                    s.push_str(k)
                }
            }
            Step::Idx(_) => s.push_str("[]"),
        }
    }
    s
}

/// Applies one random structural edit; returns its description (op, path class)
pub fn mutate_once(rng: &mut Rng, v: &mut Value) -> Option<(String, String)> {
    let mut nodes = vec![];
    walk(v, &mut vec![], &mut nodes);
    let uuids: Vec<String> = {
        let mut u = vec![];
        for (p, k) in &nodes {
            if *k == 3 {
                if let Some(Value::String(s)) = get_mut(v, p).map(|x| x.clone()) {
                    u.push(s);
                }
            }
        }
        u
    };
    for _ in 0..20 {
        let op = rng.usize(9);
        let want_kind: &[u8] = match op {
            0 => &[0],    // delete a key of an object
            1 | 2 | 3 | 4 => &[1], // array edits
            5 | 6 => &[3],  // redirect an id
            _ => &[2],    // number edits
        };
        let cands: Vec<&(Path, u8)> = nodes.iter().filter(|(_, k)| want_kind.contains(k)).collect();
        if cands.is_empty() {
            continue;
        }
        let (path, _) = cands[rng.usize(cands.len())];
        let cls = path_class(path);
        let target = get_mut(v, path)?;
        match op {
            0 => {
                if let Value::Object(o) = target {
                    if o.is_empty() {
                        continue;
                    }
                    let keys: Vec<String> = o.keys().cloned().collect();
                    let k = &keys[rng.usize(keys.len())];
                    o.remove(k);
                    let kc = if k.len() == 36 { "<id>".to_string() } else { k.clone() };
                    return Some(("delete-key".into(), format!("{}.{}", cls, kc)));
                }
            }
            1 => {
                if let Value::Array(a) = target {
                    if a.is_empty() {
                        continue;
                    }
                    let i = rng.usize(a.len());
                    a.remove(i);
                    return Some(("delete-item".into(), cls));
                }
            }
            2 => {
                if let Value::Array(a) = target {
                    if a.is_empty() {
                        continue;
                    }
                    a.clear();
                    return Some(("empty-array".into(), cls));
                }
            }
            3 => {
                if let Value::Array(a) = target {
                    if a.is_empty() {
                        continue;
                    }
                    let i = rng.usize(a.len());
                    let c = a[i].clone();
                    let n = 1 + if rng.chance(0.1) { 35 } else { rng.usize(2) };
                    for _ in 0..n {
                        a.push(c.clone());
                    }
                    return Some(("duplicate-item".into(), cls));
                }
            }
            4 => {
                if let Value::Array(a) = target {
                    if a.len() < 2 {
                        continue;
                    }
                    let keep = rng.usize(a.len());
                    a.truncate(keep);
                    return Some(("truncate-array".into(), cls));
                }
            }
            5 | 6 => {
                let new = match rng.usize(3) {
                    0 => "00000000-0000-0000-0000-000000000000".to_string(),
                    1 => crate::gen::model::uuid(rng).to_string(),
                    _ => uuids[rng.usize(uuids.len())].clone(),
                };
                *target = Value::String(new);
                return Some(("redirect-id".into(), cls));
            }
            _ => {
                if let Value::Number(n) = target {
                    let f = n.as_f64().unwrap_or(0.0);
                    let (nv, name) = if rng.chance(0.5) { (0.0, "zero-number") } else { (-f, "negate-number") };
                    if n.is_f64() {
                        *target = serde_json::json!(nv);
                    } else {
                        *target = serde_json::json!(nv as i64);
                    }
                    return Some((name.into(), cls));
                }
            }
        }
    }
    None
}
