//! G-model: random `bemodel::Model`s built as Rust values.
//!
//! A building is a grid of box cells (nx × ny × nfloors), some absent, turned as a whole by a
//! random angle. Walls between two present cells are INTERIOR partitions (given from either
//! side), walls towards an absent cell are EXTERIOR / ADIABATIC, below ground GROUND.
//! The result is referentially closed with positive sizes ("closed-sane"); `break_links`
//! and the other mutators derive the hostile profiles from it.

use bemodel::{
    BoundaryType, ConsDb, Frame, Glass, Layer, MatProps, Material, Meta, Model, Point2, Point3, PropsOverrides,
    Schedule, ScheduleDay, ScheduleWeek, SchedulesDb, Shade, Space, SpaceLoads, SpaceType, ThermalBridge,
    ThermalBridgeKind, Thermostat, Uuid, Wall, WallCons, WallGeom, WallPropsOverrides, WinCons, WinGeom,
    WinPropsOverrides, Window,
};
use bemodel::climatedata::ClimateZone;

use crate::rng::Rng;

pub const ZONES: [&str; 32] = [
    "A1c", "A2c", "A3c", "A4c", "Alfa1c", "Alfa2c", "Alfa3c", "Alfa4c", "B1c", "B2c", "B3c", "B4c", "C1c", "C2c",
    "C3c", "C4c", "D1c", "D2c", "D3c", "E1c", "A3", "A4", "B3", "B4", "C1", "C2", "C3", "C4", "D1", "D2", "D3", "E1",
];

pub fn zone(name: &str) -> ClimateZone {
    serde_json::from_value(serde_json::Value::String(name.to_string())).expect("zone")
}

pub fn uuid(rng: &mut Rng) -> Uuid {
    let hi = rng.next_u64() as u128;
    let lo = rng.next_u64() as u128;
    // keep it looking like a v4 uuid (irrelevant to the library, nicer in witnesses)
    let v = (hi << 64) | lo;
    let v = (v & !(0xF000u128 << 64)) | (0x4000u128 << 64);
    Uuid::from_u128(v)
}

#[derive(Clone, Debug)]
pub struct GenCfg {
    pub nx: (usize, usize),
    pub ny: (usize, usize),
    pub nfloors: (usize, usize),
    /// probability that a grid cell is present
    pub p_cell: f64,
    /// allow a basement level
    pub basement: bool,
    /// keep 3-D positions (needed by the obstruction oracle); otherwise ~half of the elements lose them
    pub geometric: bool,
    /// replace tilts of some elements by boundary values (60, 60.0001, 120, 240, 300, 359.99 …); only when !geometric
    pub odd_tilts: bool,
    pub p_window: f64,
    pub max_windows_per_wall: usize,
    pub p_setback: f64,
    pub shades: (usize, usize),
    pub schedules: bool,
    pub thermal_bridges: bool,
    pub overrides: bool,
    /// unused items of every kind (for purge)
    pub unused: bool,
    /// spaces outside the thermal envelope / unconditioned / uninhabited
    pub mixed_spaces: bool,
    pub multipliers: bool,
    /// rotate the whole building by a random angle
    pub turn: bool,
    /// adiabatic party walls on some exterior faces
    pub p_adiabatic: f64,
}

impl GenCfg {
    pub fn small() -> Self {
        GenCfg {
            nx: (1, 3),
            ny: (1, 2),
            nfloors: (1, 3),
            p_cell: 0.8,
            basement: true,
            geometric: false,
            odd_tilts: true,
            p_window: 0.4,
            max_windows_per_wall: 2,
            p_setback: 0.4,
            shades: (0, 3),
            schedules: true,
            thermal_bridges: true,
            overrides: true,
            unused: true,
            mixed_spaces: true,
            multipliers: true,
            turn: true,
            p_adiabatic: 0.12,
        }
    }
    pub fn geometric() -> Self {
        GenCfg { geometric: true, odd_tilts: false, ..Self::small() }
    }
}

fn r2(v: f64) -> f32 {
    ((v * 100.0).round() / 100.0) as f32
}

fn rect(w: f32, h: f32) -> Vec<Point2> {
    vec![Point2::new(0.0, 0.0), Point2::new(w, 0.0), Point2::new(w, h), Point2::new(0.0, h)]
}

fn rotz(p: [f64; 3], deg: f64) -> [f64; 3] {
    let a = deg.to_radians();
    [p[0] * a.cos() - p[1] * a.sin(), p[0] * a.sin() + p[1] * a.cos(), p[2]]
}

fn norm_az(a: f64) -> f32 {
    let mut a = a % 360.0;
    if a > 180.0 {
        a -= 360.0;
    }
    if a <= -180.0 {
        a += 360.0;
    }
    r2(a)
}

pub struct Built {
    pub model: Model,
    /// building turn applied (degrees, counter-clockwise)
    pub turn: f64,
}

pub fn gen_cons(rng: &mut Rng, n_wallcons: usize, n_wincons: usize) -> ConsDb {
    let mut db = ConsDb::default();
    let nmat = 3 + rng.usize(6);
    for i in 0..nmat {
        let props = if rng.chance(0.7) {
            MatProps::Detailed {
                conductivity: match rng.usize(10) {
                    0 => 0.03,
                    1 => 2.3,
                    2 => 50.0,
                    _ => rng.dec(0.02, 2.5, 3) as f32,
                },
                density: rng.dec(10.0, 2500.0, 0) as f32,
                specific_heat: rng.dec(500.0, 2000.0, 0) as f32,
                vapour_diff: if rng.chance(0.5) { Some(rng.dec(1.0, 100.0, 0) as f32) } else { None },
            }
        } else {
            MatProps::Resistance {
                resistance: rng.dec(0.0, 2.5, 2) as f32,
                vapour_diff: if rng.chance(0.3) { Some(rng.dec(1.0, 100.0, 0) as f32) } else { None },
            }
        };
        db.materials.push(Material { id: uuid(rng), name: format!("mat{}", i), properties: props });
    }
    for i in 0..n_wallcons {
        // R from ~0 to ~10: bare stacks and strongly insulated ones
        let nl = match rng.usize(8) {
            0 => 0,
            1 => 1,
            _ => 1 + rng.usize(6),
        };
        let layers = (0..nl)
            .map(|_| Layer {
                material: db.materials[rng.usize(nmat)].id,
                // a thickness of exactly 0 is legitimate (air gaps and membranes given by their resistance carry it)
                e: match rng.usize(12) {
                    0 | 1 => 0.005,
                    2 | 3 => 0.3,
                    4 => 0.0,
                    _ => rng.dec(0.005, 0.25, 3) as f32,
                },
            })
            .collect();
        db.wallcons.push(WallCons {
            id: uuid(rng),
            name: format!("wallcons{}", i),
            layers,
            absorptance: rng.dec(0.1, 0.95, 2) as f32,
        });
    }
    let ng = 1 + rng.usize(3);
    for i in 0..ng {
        db.glasses.push(Glass {
            id: uuid(rng),
            name: format!("glass{}", i),
            u_value: rng.dec(0.5, 5.8, 2) as f32,
            g_gln: if rng.chance(0.08) { 0.0 } else { rng.dec(0.1, 0.9, 2) as f32 },
        });
    }
    let nf = 1 + rng.usize(3);
    for i in 0..nf {
        db.frames.push(Frame {
            id: uuid(rng),
            name: format!("frame{}", i),
            u_value: rng.dec(0.8, 7.0, 2) as f32,
            absorptivity: rng.dec(0.2, 0.9, 2) as f32,
        });
    }
    for i in 0..n_wincons {
        db.wincons.push(WinCons {
            id: uuid(rng),
            name: format!("wincons{}", i),
            glass: db.glasses[rng.usize(ng)].id,
            frame: db.frames[rng.usize(nf)].id,
            f_f: match rng.usize(8) {
                0 => 0.0,
                1 => 1.0,
                _ => rng.dec(0.05, 0.6, 2) as f32,
            },
            delta_u: if rng.chance(0.5) { 0.0 } else { rng.dec(0.0, 50.0, 0) as f32 },
            g_glshwi: if rng.chance(0.4) { Some(rng.dec(0.05, 0.8, 2) as f32) } else { None },
            c_100: *rng.pick(&[3.0f32, 9.0, 27.0, 50.0, 100.0]),
        });
    }
    db
}

pub fn gen_schedules(rng: &mut Rng, n_year: usize) -> SchedulesDb {
    let mut db = SchedulesDb::default();
    let nday = 2 + rng.usize(4);
    for i in 0..nday {
        let values: Vec<f32> = match rng.usize(4) {
            0 => vec![0.0; 24],
            1 => vec![1.0; 24],
            _ => (0..24).map(|_| if rng.chance(0.4) { 0.0 } else { rng.dec(0.0, 1.0, 2) as f32 }).collect(),
        };
        db.day.push(ScheduleDay { id: uuid(rng), name: format!("day{}", i), values });
    }
    let nweek = 1 + rng.usize(3);
    for i in 0..nweek {
        // runs that cover 7 days
        let mut left = 7u32;
        let mut values = vec![];
        while left > 0 {
            let n = 1 + rng.below(left as u64) as u32;
            values.push((db.day[rng.usize(nday)].id, n));
            left -= n;
        }
        db.week.push(ScheduleWeek { id: uuid(rng), name: format!("week{}", i), values });
    }
    for i in 0..n_year {
        // periods that cover 365 days
        let np = 1 + rng.usize(4);
        let mut cuts: Vec<u32> = (0..np - 1).map(|_| 1 + rng.below(364) as u32).collect();
        cuts.push(365);
        cuts.sort();
        cuts.dedup();
        let mut prev = 0;
        let mut values = vec![];
        for c in cuts {
            values.push((db.week[rng.usize(nweek)].id, c - prev));
            prev = c;
        }
        db.year.push(Schedule { id: uuid(rng), name: format!("year{}", i), values });
    }
    db
}

/// Builds a closed, sane model.
pub fn gen_model(rng: &mut Rng, cfg: &GenCfg) -> Built {
    let nx = rng.range_i(cfg.nx.0 as i64, cfg.nx.1 as i64) as usize;
    let ny = rng.range_i(cfg.ny.0 as i64, cfg.ny.1 as i64) as usize;
    let nf = rng.range_i(cfg.nfloors.0 as i64, cfg.nfloors.1 as i64) as usize;
    let has_basement = cfg.basement && rng.chance(0.35);
    // grid lines
    let mut xs = vec![0.0f64];
    for _ in 0..nx {
        let l = *xs.last().unwrap();
        xs.push(l + rng.dec(2.5, 9.0, 2));
    }
    let mut ys = vec![0.0f64];
    for _ in 0..ny {
        let l = *ys.last().unwrap();
        ys.push(l + rng.dec(2.5, 9.0, 2));
    }
    let mut zs = vec![0.0f64];
    if has_basement {
        zs[0] = -rng.dec(2.2, 4.0, 2);
    }
    for k in 0..nf {
        let l = *zs.last().unwrap();
        // a basement storey is fully or only partly below ground
        let h = if k == 0 && has_basement {
            if rng.chance(0.5) { -zs[0] } else { -zs[0] + rng.dec(0.4, 2.0, 2) }
        } else {
            rng.dec(2.4, 4.5, 2)
        };
        zs.push(l + h);
    }
    // presence
    let idx = |i: usize, j: usize, k: usize| (k * ny + j) * nx + i;
    let mut present = vec![false; nx * ny * nf];
    for k in 0..nf {
        for j in 0..ny {
            for i in 0..nx {
                // a cell needs support below (no floating rooms) except on the lowest level
                let support = k == 0 || present[idx(i, j, k - 1)];
                present[idx(i, j, k)] = support && (rng.chance(cfg.p_cell) || (i == 0 && j == 0 && k == 0));
            }
        }
    }

    let n_wallcons = 2 + rng.usize(4);
    let n_wincons = 1 + rng.usize(3);
    let cons = gen_cons(rng, n_wallcons, n_wincons);
    let n_year = 2 + rng.usize(3);
    let schedules = if cfg.schedules { gen_schedules(rng, n_year) } else { SchedulesDb::default() };

    let mut loads = vec![];
    let mut thermostats = vec![];
    if cfg.schedules {
        for i in 0..(1 + rng.usize(3)) {
            let ny_ = schedules.year.len();
            loads.push(SpaceLoads {
                id: uuid(rng),
                name: format!("loads{}", i),
                area_per_person: rng.dec(5.0, 40.0, 1) as f32,
                people_schedule: if rng.chance(0.85) { Some(schedules.year[rng.usize(ny_)].id) } else { None },
                // a load of exactly 0 (a store room without equipment) is common and shares its schedules with the others
                people_sensible: if rng.chance(0.15) { 0.0 } else { rng.dec(0.0, 12.0, 2) as f32 },
                people_latent: rng.dec(0.0, 8.0, 2) as f32,
                equipment: if rng.chance(0.2) { 0.0 } else { rng.dec(0.0, 15.0, 2) as f32 },
                equipment_schedule: if rng.chance(0.85) { Some(schedules.year[rng.usize(ny_)].id) } else { None },
                lighting: if rng.chance(0.2) { 0.0 } else { rng.dec(0.0, 15.0, 2) as f32 },
                lighting_schedule: if rng.chance(0.85) { Some(schedules.year[rng.usize(ny_)].id) } else { None },
            });
        }
        for i in 0..(1 + rng.usize(2)) {
            let ny_ = schedules.year.len();
            thermostats.push(Thermostat {
                id: uuid(rng),
                name: format!("thermostat{}", i),
                temp_max: if rng.chance(0.7) { Some(schedules.year[rng.usize(ny_)].id) } else { None },
                temp_min: if rng.chance(0.7) { Some(schedules.year[rng.usize(ny_)].id) } else { None },
            });
        }
    }

    // spaces
    let mut spaces: Vec<Space> = vec![];
    let mut space_of = vec![usize::MAX; nx * ny * nf];
    for k in 0..nf {
        for j in 0..ny {
            for i in 0..nx {
                if !present[idx(i, j, k)] {
                    continue;
                }
                let kind = if cfg.mixed_spaces {
                    match rng.usize(10) {
                        0 | 1 => SpaceType::UNCONDITIONED,
                        2 | 3 => SpaceType::UNINHABITED,
                        _ => SpaceType::CONDITIONED,
                    }
                } else {
                    SpaceType::CONDITIONED
                };
                let inside_tenv = if cfg.mixed_spaces {
                    match kind {
                        SpaceType::CONDITIONED => rng.chance(0.95),
                        SpaceType::UNCONDITIONED => rng.chance(0.6),
                        SpaceType::UNINHABITED => rng.chance(0.35),
                    }
                } else {
                    true
                };
                space_of[idx(i, j, k)] = spaces.len();
                spaces.push(Space {
                    id: uuid(rng),
                    name: format!("P{:02}_E{:02}", k + 1, j * nx + i + 1),
                    multiplier: if cfg.multipliers && rng.chance(0.2) { (2 + rng.usize(4)) as f32 } else { 1.0 },
                    kind,
                    inside_tenv,
                    height: r2(zs[k + 1] - zs[k]),
                    z: r2(zs[k]),
                    loads: if !loads.is_empty() && rng.chance(0.8) { Some(loads[rng.usize(loads.len())].id) } else { None },
                    thermostat: if !thermostats.is_empty() && rng.chance(0.8) {
                        Some(thermostats[rng.usize(thermostats.len())].id)
                    } else {
                        None
                    },
                    n_v: match kind {
                        SpaceType::UNINHABITED => {
                            if rng.chance(0.85) {
                                Some(*rng.pick(&[0.1f32, 0.5, 1.0, 3.0, 10.0]))
                            } else {
                                None
                            }
                        }
                        _ => {
                            if rng.chance(0.25) {
                                Some(rng.dec(0.2, 2.0, 2) as f32)
                            } else {
                                None
                            }
                        }
                    },
                    illuminance: if rng.chance(0.3) { Some(rng.dec(50.0, 800.0, 0) as f32) } else { None },
                });
            }
        }
    }

    let turn = if cfg.turn { rng.dec02(0.0, 360.0) } else { 0.0 };
    let mut walls: Vec<Wall> = vec![];
    let mut windows: Vec<Window> = vec![];
    let wc = |rng: &mut Rng| cons.wallcons[rng.usize(cons.wallcons.len())].id;

    // helper making a wall from un-turned geometry
    let mut push_wall = |rng: &mut Rng,
                         walls: &mut Vec<Wall>,
                         name: String,
                         bounds: BoundaryType,
                         space: Uuid,
                         next_to: Option<Uuid>,
                         pos: [f64; 3],
                         az: f64,
                         tilt: f64,
                         w: f64,
                         h: f64|
     -> Uuid {
        let p = rotz(pos, turn);
        let id = uuid(rng);
        walls.push(Wall {
            id,
            name,
            bounds,
            cons: wc(rng),
            space,
            next_to,
            geometry: WallGeom {
                tilt: tilt as f32,
                azimuth: norm_az(az + turn),
                position: Some(Point3::new(p[0] as f32, p[1] as f32, p[2] as f32)),
                polygon: rect(r2(w), r2(h)),
            },
        });
        id
    };

    for k in 0..nf {
        for j in 0..ny {
            for i in 0..nx {
                if !present[idx(i, j, k)] {
                    continue;
                }
                let me = space_of[idx(i, j, k)];
                let sid = spaces[me].id;
                let (x0, x1, y0, y1, z0, z1) = (xs[i], xs[i + 1], ys[j], ys[j + 1], zs[k], zs[k + 1]);
                let below_ground = z1 <= 0.001;
                let (w, d, h) = (x1 - x0, y1 - y0, z1 - z0);
                // four sides: (di, dj, position, azimuth, width)
                let sides: [(i64, i64, [f64; 3], f64, f64, &str); 4] = [
                    (0, -1, [x0, y0, z0], 0.0, w, "S"),
                    (1, 0, [x1, y0, z0], 90.0, d, "E"),
                    (0, 1, [x1, y1, z0], 180.0, w, "N"),
                    (-1, 0, [x0, y1, z0], -90.0, d, "W"),
                ];
                for (di, dj, pos, az, width, tag) in sides {
                    let (ni, nj) = (i as i64 + di, j as i64 + dj);
                    let neighbour = if ni >= 0 && nj >= 0 && (ni as usize) < nx && (nj as usize) < ny && present[idx(ni as usize, nj as usize, k)] {
                        Some(space_of[idx(ni as usize, nj as usize, k)])
                    } else {
                        None
                    };
                    let name = format!("{}_{}", spaces[me].name, tag);
                    match neighbour {
                        Some(nb) => {
                            // one partition per pair, owned by a random side: emit it when we are the lower index
                            if me < nb {
                                let (owner, other, pos, az) = if rng.chance(0.5) {
                                    (me, nb, pos, az)
                                } else {
                                    // seen from the other space: opposite azimuth, origin at the far end
                                    let a = (az as f64).to_radians();
                                    let far = [pos[0] + width * a.cos(), pos[1] + width * a.sin(), pos[2]];
                                    (nb, me, far, az + 180.0)
                                };
                                let (o_id, n_id) = (spaces[owner].id, spaces[other].id);
                                push_wall(rng, &mut walls, name, BoundaryType::INTERIOR, o_id, Some(n_id), pos, az, 90.0, width, h);
                            }
                        }
                        None => {
                            let bounds = if below_ground || (z0 < -0.001 && rng.chance(0.8)) || (k == 0 && rng.chance(0.04)) {
                                BoundaryType::GROUND
                            } else if rng.chance(cfg.p_adiabatic) {
                                BoundaryType::ADIABATIC
                            } else {
                                BoundaryType::EXTERIOR
                            };
                            let wid = push_wall(rng, &mut walls, name.clone(), bounds, sid, None, pos, az, 90.0, width, h);
                            if (bounds == BoundaryType::EXTERIOR || (bounds != BoundaryType::EXTERIOR && rng.chance(0.05)))
                                && rng.chance(cfg.p_window)
                            {
                                let nw = 1 + rng.usize(cfg.max_windows_per_wall.max(1));
                                let slot = width / nw as f64;
                                for q in 0..nw {
                                    let ww = rng.dec(0.4, (slot - 0.3).max(0.45), 2).min(slot - 0.2).max(0.3);
                                    let wh = rng.dec(0.4, (h - 0.8).max(0.45), 2).min(h - 0.4).max(0.3);
                                    let wx = slot * q as f64 + rng.dec(0.05, (slot - ww - 0.05).max(0.06), 2).min(slot - ww);
                                    let wy = rng.dec(0.1, (h - wh - 0.1).max(0.11), 2).min(h - wh);
                                    windows.push(Window {
                                        id: uuid(rng),
                                        name: format!("{}_V{}", name, q + 1),
                                        cons: cons.wincons[rng.usize(cons.wincons.len())].id,
                                        wall: wid,
                                        geometry: WinGeom {
                                            position: Some(Point2::new(r2(wx.max(0.0)), r2(wy.max(0.0)))),
                                            height: r2(wh),
                                            width: r2(ww),
                                            setback: if rng.chance(cfg.p_setback) { rng.dec(0.05, 0.6, 2) as f32 } else { 0.0 },
                                        },
                                    });
                                }
                            }
                        }
                    }
                }
                // floor
                let below = if k > 0 && present[idx(i, j, k - 1)] { Some(space_of[idx(i, j, k - 1)]) } else { None };
                match below {
                    Some(lo) => {
                        let lo_id = spaces[lo].id;
                        if rng.chance(0.85) {
                            // floor of the upper space, optionally split in two pieces
                            if rng.chance(0.2) {
                                let w1 = (w * rng.range_f(0.3, 0.7) * 100.0).round() / 100.0;
                                push_wall(rng, &mut walls, format!("{}_F1", spaces[me].name), BoundaryType::INTERIOR, sid, Some(lo_id), [x0, y1, z0], 0.0, 180.0, w1, d);
                                push_wall(rng, &mut walls, format!("{}_F2", spaces[me].name), BoundaryType::INTERIOR, sid, Some(lo_id), [x0 + w1, y1, z0], 0.0, 180.0, w - w1, d);
                            } else {
                                push_wall(rng, &mut walls, format!("{}_F", spaces[me].name), BoundaryType::INTERIOR, sid, Some(lo_id), [x0, y1, z0], 0.0, 180.0, w, d);
                            }
                        } else {
                            // given from below, as the ceiling of the lower space
                            push_wall(rng, &mut walls, format!("{}_C", spaces[lo].name), BoundaryType::INTERIOR, lo_id, Some(sid), [x0, y0, z0], 0.0, 0.0, w, d);
                        }
                    }
                    None => {
                        let bounds = if z0 <= 0.001 {
                            match rng.usize(20) {
                                0 | 1 => BoundaryType::EXTERIOR,
                                2 => BoundaryType::ADIABATIC,
                                _ => BoundaryType::GROUND,
                            }
                        } else if rng.chance(0.15) {
                            BoundaryType::ADIABATIC
                        } else {
                            BoundaryType::EXTERIOR
                        };
                        push_wall(rng, &mut walls, format!("{}_F", spaces[me].name), bounds, sid, None, [x0, y1, z0], 0.0, 180.0, w, d);
                    }
                }
                // roof
                let above = k + 1 < nf && present[idx(i, j, k + 1)];
                if !above {
                    let bounds = if below_ground {
                        BoundaryType::GROUND
                    } else if rng.chance(cfg.p_adiabatic * 0.5) {
                        BoundaryType::ADIABATIC
                    } else {
                        BoundaryType::EXTERIOR
                    };
                    let rid = push_wall(rng, &mut walls, format!("{}_R", spaces[me].name), bounds, sid, None, [x0, y0, z1], 0.0, 0.0, w, d);
                    if bounds == BoundaryType::EXTERIOR && rng.chance(cfg.p_window * 0.4) {
                        let ww = rng.dec(0.4, (w - 0.6).max(0.45), 2).min(w - 0.3);
                        let wh = rng.dec(0.4, (d - 0.6).max(0.45), 2).min(d - 0.3);
                        windows.push(Window {
                            id: uuid(rng),
                            name: format!("{}_R_V", spaces[me].name),
                            cons: cons.wincons[rng.usize(cons.wincons.len())].id,
                            wall: rid,
                            geometry: WinGeom {
                                position: Some(Point2::new(r2(0.15), r2(0.15))),
                                height: r2(wh),
                                width: r2(ww),
                                setback: if rng.chance(cfg.p_setback) { rng.dec(0.05, 0.4, 2) as f32 } else { 0.0 },
                            },
                        });
                    }
                }
            }
        }
    }

    // shades: free rectangles around the building
    let mut shades = vec![];
    let ns = rng.range_i(cfg.shades.0 as i64, cfg.shades.1 as i64) as usize;
    let (bx, by, bz) = (*xs.last().unwrap(), *ys.last().unwrap(), *zs.last().unwrap());
    for i in 0..ns {
        let p = rotz([rng.dec(-10.0, bx + 10.0, 2), rng.dec(-10.0, by + 10.0, 2), rng.dec(0.0, bz, 2)], turn);
        shades.push(Shade {
            id: uuid(rng),
            name: format!("shade{}", i),
            geometry: WallGeom {
                tilt: *rng.pick(&[90.0f32, 90.0, 90.0, 0.0, 45.0, 135.0]),
                azimuth: norm_az(rng.dec(-180.0, 180.0, 0)),
                position: Some(Point3::new(p[0] as f32, p[1] as f32, p[2] as f32)),
                polygon: rect(rng.dec(0.5, 12.0, 2) as f32, rng.dec(0.5, 10.0, 2) as f32),
            },
        });
    }

    // thermal bridges
    let mut thermal_bridges = vec![];
    if cfg.thermal_bridges {
        use ThermalBridgeKind::*;
        let kinds = [ROOF, BALCONY, CORNER, INTERMEDIATEFLOOR, INTERNALWALL, GROUNDFLOOR, PILLAR, WINDOW, GENERIC];
        for (i, k) in kinds.iter().enumerate() {
            if rng.chance(0.7) {
                thermal_bridges.push(ThermalBridge {
                    id: uuid(rng),
                    name: format!("tb{}", i),
                    kind: *k,
                    l: match rng.usize(8) {
                        0 => 0.0,
                        1 => -(rng.dec(0.5, 50.0, 2) as f32),
                        _ => rng.dec(0.5, 120.0, 2) as f32,
                    },
                    psi: rng.dec(0.0, 1.2, 2) as f32,
                });
            }
        }
    }

    let mut overrides = PropsOverrides::default();
    if cfg.overrides {
        for w in &walls {
            if rng.chance(0.1) {
                overrides.walls.insert(w.id, WallPropsOverrides { u_value: if rng.chance(0.85) { Some(rng.dec(0.1, 4.0, 2) as f32) } else { None } });
            }
        }
        for w in &windows {
            if rng.chance(0.15) {
                overrides.windows.insert(
                    w.id,
                    WinPropsOverrides {
                        u_value: if rng.chance(0.6) { Some(rng.dec(0.6, 5.7, 2) as f32) } else { None },
                        f_shobst: if rng.chance(0.6) { Some(rng.dec(0.0, 1.0, 2) as f32) } else { None },
                    },
                );
            }
        }
    }

    let mut model = Model {
        meta: Meta {
            name: "generated".into(),
            is_new_building: rng.chance(0.5),
            is_dwelling: rng.chance(0.6),
            num_dwellings: 1 + rng.usize(8) as i32,
            climate: zone(ZONES[rng.usize(32)]),
            global_ventilation_l_s: if rng.chance(0.6) { Some(rng.dec(5.0, 300.0, 1) as f32) } else { None },
            n50_test_ach: if rng.chance(0.35) { Some(rng.dec(0.5, 12.0, 2) as f32) } else { None },
            d_perim_insulation: if rng.chance(0.35) { rng.dec(0.3, 2.0, 2) as f32 } else { 0.0 },
            rn_perim_insulation: if rng.chance(0.35) { rng.dec(0.3, 3.0, 2) as f32 } else { 0.0 },
        },
        spaces,
        walls,
        windows,
        thermal_bridges,
        shades,
        cons,
        schedules,
        loads,
        thermostats,
        overrides,
        extra: None,
    };

    if !cfg.geometric {
        degeometrize(rng, &mut model, cfg.odd_tilts);
        // partitions modelled without their neighbour (legal: the link is optional)
        for w in model.walls.iter_mut() {
            if w.bounds == BoundaryType::INTERIOR && rng.chance(0.06) {
                w.next_to = None;
            }
        }
    }
    if cfg.unused {
        add_unused(rng, &mut model);
    }
    Built { model, turn }
}

/// Drops positions of some elements and (optionally) moves tilts to class-boundary values.
/// Leaves the model closed and sane.
pub fn degeometrize(rng: &mut Rng, m: &mut Model, odd_tilts: bool) {
    for w in m.walls.iter_mut() {
        if rng.chance(0.3) {
            w.geometry.position = None;
        }
        if odd_tilts && rng.chance(0.25) {
            let t = w.geometry.tilt;
            // stay within the element's own class but at/near its boundaries, plus equivalent angles beyond 180
            let choices: &[f32] = if t < 1.0 {
                &[0.0, 30.0, 59.99, 60.0, 300.0, 330.0, 359.99, 45.0]
            } else if t < 100.0 {
                &[60.01, 61.0, 75.0, 90.0, 119.99, 105.0, 240.0, 270.0, 299.99]
            } else {
                &[120.0, 135.0, 150.0, 180.0, 200.0, 239.99, 120.01]
            };
            w.geometry.tilt = *rng.pick(choices);
        }
        if odd_tilts && rng.chance(0.1) {
            // azimuth near compass-class boundaries
            w.geometry.azimuth = *rng.pick(&[17.99f32, 18.0, 68.99, 69.0, 119.99, 120.0, 157.49, 157.5, -157.5, -120.0, -69.0, -18.0, -17.99, 180.0, -180.0]);
        }
    }
    for w in m.windows.iter_mut() {
        if rng.chance(0.2) {
            w.geometry.position = None;
        }
    }
    for s in m.shades.iter_mut() {
        if rng.chance(0.2) {
            s.geometry.position = None;
        }
    }
}

/// Unused items of every kind, and removable chains (space without walls → private loads → schedules)
pub fn add_unused(rng: &mut Rng, m: &mut Model) {
    if rng.chance(0.5) {
        let nwc = 1 + rng.usize(2);
        let extra = gen_cons(rng, nwc, 1);
        // keep names distinct from the used ones
        for mut x in extra.materials {
            x.name = format!("unused_{}", x.name);
            let at = rng.usize(m.cons.materials.len() + 1);
            m.cons.materials.insert(at, x);
        }
        for mut x in extra.wallcons {
            x.name = format!("unused_{}", x.name);
            let at = rng.usize(m.cons.wallcons.len() + 1);
            m.cons.wallcons.insert(at, x);
        }
        for mut x in extra.wincons {
            x.name = format!("unused_{}", x.name);
            let at = rng.usize(m.cons.wincons.len() + 1);
            m.cons.wincons.insert(at, x);
        }
        for mut x in extra.glasses {
            x.name = format!("unused_{}", x.name);
            let at = rng.usize(m.cons.glasses.len() + 1);
            m.cons.glasses.insert(at, x);
        }
        for mut x in extra.frames {
            x.name = format!("unused_{}", x.name);
            let at = rng.usize(m.cons.frames.len() + 1);
            m.cons.frames.insert(at, x);
        }
    }
    if rng.chance(0.5) {
        // a chain that becomes removable in one purge call
        let sch = gen_schedules(rng, 1);
        let year_id = sch.year[0].id;
        let at_y = rng.usize(m.schedules.year.len() + 1);
        for (i, y) in sch.year.into_iter().enumerate() {
            m.schedules.year.insert((at_y + i).min(m.schedules.year.len()), y);
        }
        for w in sch.week {
            let at = rng.usize(m.schedules.week.len() + 1);
            m.schedules.week.insert(at, w);
        }
        for d in sch.day {
            let at = rng.usize(m.schedules.day.len() + 1);
            m.schedules.day.insert(at, d);
        }
        let loads_id = uuid(rng);
        let at = rng.usize(m.loads.len() + 1);
        m.loads.insert(
            at,
            SpaceLoads {
                id: loads_id,
                name: "unused_loads".into(),
                area_per_person: 10.0,
                people_schedule: Some(year_id),
                people_sensible: 3.0,
                people_latent: 2.0,
                equipment: 4.0,
                equipment_schedule: Some(year_id),
                lighting: 4.0,
                lighting_schedule: None,
            },
        );
        let th_id = uuid(rng);
        let at = rng.usize(m.thermostats.len() + 1);
        m.thermostats.insert(at, Thermostat { id: th_id, name: "unused_thermostat".into(), temp_max: Some(year_id), temp_min: None });
        let at = rng.usize(m.spaces.len() + 1);
        m.spaces.insert(
            at,
            Space {
                id: uuid(rng),
                name: "unused_space".into(),
                multiplier: 1.0,
                kind: SpaceType::CONDITIONED,
                inside_tenv: true,
                height: 3.0,
                z: 0.0,
                loads: if rng.chance(0.8) { Some(loads_id) } else { None },
                thermostat: if rng.chance(0.8) { Some(th_id) } else { None },
                n_v: None,
                illuminance: None,
            },
        );
    }
}

#[derive(Clone, Debug, PartialEq, Eq, PartialOrd, Ord)]
pub enum LinkKind {
    WallSpace,
    WallCons,
    WallNext,
    WinWall,
    WinCons,
    LayerMat,
    WinconsGlass,
    WinconsFrame,
    SpaceLoads,
    SpaceThermostat,
    LoadsSchedule,
    ThermostatSchedule,
    YearWeek,
    WeekDay,
}

/// Redirects a random subset of links to nil or to an absent id; returns what was broken.
pub fn break_links(rng: &mut Rng, m: &mut Model, p: f64, kinds: &[LinkKind]) -> Vec<(LinkKind, Uuid)> {
    let mut broken = vec![];
    // ids that exist in the model, by collection: a link may also be redirected to an element of the wrong kind
    let pools: Vec<Vec<Uuid>> = vec![
        m.spaces.iter().map(|x| x.id).collect(),            // 0 spaces
        m.walls.iter().map(|x| x.id).collect(),             // 1 walls
        m.cons.wallcons.iter().map(|x| x.id).collect(),     // 2 wall constructions
        m.cons.wincons.iter().map(|x| x.id).collect(),      // 3 window constructions
        m.cons.materials.iter().map(|x| x.id).collect(),    // 4 materials
        m.cons.glasses.iter().map(|x| x.id).collect(),      // 5 glasses
        m.cons.frames.iter().map(|x| x.id).collect(),       // 6 frames
        m.loads.iter().map(|x| x.id).collect(),             // 7 loads
        m.thermostats.iter().map(|x| x.id).collect(),       // 8 thermostats
        m.schedules.year.iter().map(|x| x.id).collect(),    // 9 year
        m.schedules.week.iter().map(|x| x.id).collect(),    // 10 week
        m.schedules.day.iter().map(|x| x.id).collect(),     // 11 day
    ];
    let bad_for = |rng: &mut Rng, target: usize| -> Uuid {
        match rng.usize(10) {
            0..=3 => Uuid::nil(),
            4..=7 => uuid(rng),
            _ => {
                // an existing id of another collection (the nearest sibling kind first: wall <-> window constructions ...)
                let sibling = match target {
                    2 => 3,
                    3 => 2,
                    5 => 6,
                    6 => 5,
                    7 => 8,
                    8 => 7,
                    9 => 10,
                    10 => 11,
                    11 => 10,
                    0 => 1,
                    1 => 0,
                    _ => 2,
                };
                let pool = if rng.chance(0.6) && !pools[sibling].is_empty() { &pools[sibling] } else { &pools[(target + 1 + rng.usize(11)) % 12] };
                let own = &pools[target];
                match pool.get(rng.usize(pool.len().max(1))) {
                    Some(id) if !own.contains(id) => *id,
                    _ => uuid(rng),
                }
            }
        }
    };
    let has = |k: &LinkKind| kinds.contains(k);
    for w in m.walls.iter_mut() {
        if has(&LinkKind::WallSpace) && rng.chance(p) {
            w.space = bad_for(rng, 0);
            broken.push((LinkKind::WallSpace, w.id));
        }
        if has(&LinkKind::WallCons) && rng.chance(p) {
            w.cons = bad_for(rng, 2);
            broken.push((LinkKind::WallCons, w.id));
        }
        if has(&LinkKind::WallNext) && w.next_to.is_some() && rng.chance(p) {
            w.next_to = Some(bad_for(rng, 0));
            broken.push((LinkKind::WallNext, w.id));
        }
    }
    for w in m.windows.iter_mut() {
        if has(&LinkKind::WinWall) && rng.chance(p) {
            w.wall = bad_for(rng, 1);
            broken.push((LinkKind::WinWall, w.id));
        }
        if has(&LinkKind::WinCons) && rng.chance(p) {
            w.cons = bad_for(rng, 3);
            broken.push((LinkKind::WinCons, w.id));
        }
    }
    for c in m.cons.wallcons.iter_mut() {
        for l in c.layers.iter_mut() {
            if has(&LinkKind::LayerMat) && rng.chance(p) {
                l.material = bad_for(rng, 4);
                broken.push((LinkKind::LayerMat, c.id));
            }
        }
    }
    for c in m.cons.wincons.iter_mut() {
        if has(&LinkKind::WinconsGlass) && rng.chance(p) {
            c.glass = bad_for(rng, 5);
            broken.push((LinkKind::WinconsGlass, c.id));
        }
        if has(&LinkKind::WinconsFrame) && rng.chance(p) {
            c.frame = bad_for(rng, 6);
            broken.push((LinkKind::WinconsFrame, c.id));
        }
    }
    for s in m.spaces.iter_mut() {
        if has(&LinkKind::SpaceLoads) && s.loads.is_some() && rng.chance(p) {
            s.loads = Some(bad_for(rng, 7));
            broken.push((LinkKind::SpaceLoads, s.id));
        }
        if has(&LinkKind::SpaceThermostat) && s.thermostat.is_some() && rng.chance(p) {
            s.thermostat = Some(bad_for(rng, 8));
            broken.push((LinkKind::SpaceThermostat, s.id));
        }
    }
    for l in m.loads.iter_mut() {
        if has(&LinkKind::LoadsSchedule) && l.people_schedule.is_some() && rng.chance(p) {
            l.people_schedule = Some(bad_for(rng, 9));
            broken.push((LinkKind::LoadsSchedule, l.id));
        }
        if has(&LinkKind::LoadsSchedule) && l.lighting_schedule.is_some() && rng.chance(p) {
            l.lighting_schedule = Some(bad_for(rng, 9));
            broken.push((LinkKind::LoadsSchedule, l.id));
        }
    }
    for y in m.schedules.year.iter_mut() {
        for v in y.values.iter_mut() {
            if has(&LinkKind::YearWeek) && rng.chance(p) {
                v.0 = bad_for(rng, 10);
                broken.push((LinkKind::YearWeek, y.id));
            }
        }
    }
    for y in m.schedules.week.iter_mut() {
        for v in y.values.iter_mut() {
            if has(&LinkKind::WeekDay) && rng.chance(p) {
                v.0 = bad_for(rng, 11);
                broken.push((LinkKind::WeekDay, y.id));
            }
        }
    }
    broken
}

pub const ALL_LINKS: [LinkKind; 14] = [
    LinkKind::WallSpace,
    LinkKind::WallCons,
    LinkKind::WallNext,
    LinkKind::WinWall,
    LinkKind::WinCons,
    LinkKind::LayerMat,
    LinkKind::WinconsGlass,
    LinkKind::WinconsFrame,
    LinkKind::SpaceLoads,
    LinkKind::SpaceThermostat,
    LinkKind::LoadsSchedule,
    LinkKind::ThermostatSchedule,
    LinkKind::YearWeek,
    LinkKind::WeekDay,
];

/// Loads a shipped model JSON
pub fn load_model(path: &std::path::Path) -> Option<Model> {
    Model::from_json(&std::fs::read_to_string(path).ok()?).ok()
}

/// Outline variations that leave the surface unchanged: a redundant vertex in the middle of an edge (half of the
/// time the first edge, so that the outline starts with three collinear points) and, more rarely, the same
/// counter-clockwise outline listed from another start vertex. Returns how many walls were changed.
pub fn vary_outlines(rng: &mut Rng, m: &mut Model, share: f64) -> usize {
    let mut n = 0;
    // walls that carry windows keep their start corner: a window's position is given relative to the outline's first
    // edge by one part of the library (sample points) and relative to the wall origin by another (reveals); the two
    // agree only for outlines that start at the origin along +X, which is all the converter produces for such walls
    let with_windows: std::collections::HashSet<Uuid> = m.windows.iter().map(|w| w.wall).collect();
    for w in m.walls.iter_mut() {
        let has_windows = with_windows.contains(&w.id);
        let p = &mut w.geometry.polygon;
        if p.len() < 3 || !rng.chance(share) {
            continue;
        }
        if !has_windows && rng.chance(0.25) {
            let k = rng.usize(p.len());
            p.rotate_left(k);
        }
        let e = if rng.chance(0.5) { 0 } else { rng.usize(p.len()) };
        let (a, b) = (p[e], p[(e + 1) % p.len()]);
        // exact midpoint only where it is exactly collinear in f32: axis-parallel edges
        if a.x == b.x || a.y == b.y {
            let mid = bemodel::Point2::new((a.x + b.x) / 2.0, (a.y + b.y) / 2.0);
            p.insert(e + 1, mid);
            n += 1;
        }
    }
    n
}
