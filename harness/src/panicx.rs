//! Panic capture: a process-wide hook stores the panic site; cases run under catch_unwind.
//! The enclosing function of a site is found by scanning the source file upwards for the
//! nearest `fn name` (deterministic, no backtrace needed).

use std::cell::RefCell;
use std::collections::HashMap;
use std::panic::{catch_unwind, AssertUnwindSafe};
use std::sync::Mutex;

#[derive(Clone, Debug)]
pub struct PanicInfo {
    pub file: String,
    pub line: u32,
    pub message: String,
}

thread_local! {
    static LAST: RefCell<Option<PanicInfo>> = RefCell::new(None);
}

pub fn install_hook() {
    std::panic::set_hook(Box::new(|info| {
        let (file, line) = info
            .location()
            .map(|l| (l.file().to_string(), l.line()))
            .unwrap_or_default();
        let message = if let Some(s) = info.payload().downcast_ref::<&str>() {
            s.to_string()
        } else if let Some(s) = info.payload().downcast_ref::<String>() {
            s.clone()
        } else {
            "<non-string panic payload>".to_string()
        };
        LAST.with(|l| *l.borrow_mut() = Some(PanicInfo { file, line, message }));
    }));
}

/// Runs `f`, returning the panic site if it unwinds.
pub fn guard<T>(f: impl FnOnce() -> T) -> Result<T, PanicInfo> {
    LAST.with(|l| *l.borrow_mut() = None);
    match catch_unwind(AssertUnwindSafe(f)) {
        Ok(v) => Ok(v),
        Err(_) => Err(LAST.with(|l| l.borrow_mut().take()).unwrap_or(PanicInfo {
            file: "<unknown>".into(),
            line: 0,
            message: "<panic without hook info>".into(),
        })),
    }
}

static FN_CACHE: Mutex<Option<HashMap<(String, u32), String>>> = Mutex::new(None);

fn enclosing_fn(file: &str, line: u32) -> String {
    let mut guard = FN_CACHE.lock().unwrap_or_else(|e| e.into_inner());
    let cache = guard.get_or_insert_with(HashMap::new);
    if let Some(v) = cache.get(&(file.to_string(), line)) {
        return v.clone();
    }
    let mut name = String::from("?");
    if let Ok(text) = std::fs::read_to_string(file) {
        let lines: Vec<&str> = text.lines().collect();
        let mut i = (line as usize).min(lines.len());
        while i > 0 {
            i -= 1;
            let l = lines[i].trim_start();
            // `fn name`, `pub fn name`, `pub(crate) fn name`, `async fn`, …
            if let Some(pos) = l.find("fn ") {
                let before = &l[..pos];
                if before.is_empty()
                    || before.trim_end().ends_with("pub")
                    || before.trim_end().ends_with(')')
                    || before.trim_end().ends_with("const")
                    || before.trim_end().ends_with("unsafe")
                {
                    if !l.starts_with("//") {
                        let rest = &l[pos + 3..];
                        let n: String = rest
                            .chars()
                            .take_while(|c| c.is_alphanumeric() || *c == '_')
                            .collect();
                        if !n.is_empty() {
                            name = n;
                            break;
                        }
                    }
                }
            }
        }
    }
    cache.insert((file.to_string(), line), name.clone());
    name
}

/// Strips digits and quoted / variable parts so that the message *class* is stable.
pub fn message_class(msg: &str) -> String {
    // `unwrap()`/`expect()` on an Err append the error's own text, which varies with the input:
    // the class is the fixed part before the first ": "
    let msg = match msg.find(": ") {
        Some(pos) => &msg[..pos],
        None => msg,
    };
    let mut out = String::new();
    let mut in_quote: Option<char> = None;
    for c in msg.chars() {
        if let Some(q) = in_quote {
            if c == q {
                in_quote = None;
            }
            continue;
        }
        if c == '"' || c == '\'' || c == '`' {
            in_quote = Some(c);
            out.push('Q');
            continue;
        }
        if c.is_ascii_digit() {
            if !out.ends_with('N') {
                out.push('N');
            }
            continue;
        }
        out.push(c);
    }
    let out: String = out.split_whitespace().collect::<Vec<_>>().join(" ");
    out.chars().take(80).collect()
}

impl PanicInfo {
    /// true when the panic originates in the code under verification (not in the harness,
    /// not in a dependency called with harness-made arguments only)
    /// Absolute path of the site when it lies in the code under verification.
    pub fn repo_path(&self) -> Option<String> {
        let repo = crate::core::repo_dir();
        if self.file.starts_with(&repo) {
            return Some(self.file.clone());
        }
        if !self.file.starts_with('/') && !self.in_harness() {
            let cand = format!("{}/{}", repo, self.file);
            if std::path::Path::new(&cand).exists() {
                return Some(cand);
            }
        }
        None
    }
    pub fn in_repo(&self) -> bool {
        self.repo_path().is_some()
    }
    /// The site is in the harness's own sources (a harness bug, never a verdict).
    pub fn in_harness(&self) -> bool {
        self.file.contains("verif/harness/src")
            || (self.file.starts_with("src/")
                && std::path::Path::new(&format!("{}/harness/{}", crate::core::verif_dir(), self.file)).exists())
    }
    pub fn rel_file(&self) -> String {
        let repo = crate::core::repo_dir();
        if let Some(p) = self.repo_path() {
            return p.strip_prefix(&repo).unwrap_or(&p).trim_start_matches('/').to_string();
        }
        // std / registry: keep the tail that is stable across machines
        if let Some(pos) = self.file.find("/library/") {
            return format!("std{}", &self.file[pos + 8..]);
        }
        if let Some(pos) = self.file.find("/registry/src/") {
            let tail = &self.file[pos + 14..];
            return format!("dep/{}", tail.splitn(2, '/').nth(1).unwrap_or(tail));
        }
        self.file.clone()
    }
    pub fn is_overflow(&self) -> bool {
        self.message.starts_with("attempt to ") && self.message.contains("overflow")
    }
    /// Stable signature: file + enclosing function + message class (no line numbers).
    pub fn signature(&self) -> String {
        format!(
            "panic:{}:{}:{}",
            self.rel_file(),
            self.repo_path().map(|p| enclosing_fn(&p, self.line)).unwrap_or_else(|| "?".into()),
            message_class(&self.message)
        )
    }
    pub fn describe(&self) -> String {
        format!("{}:{}: {}", self.rel_file(), self.line, self.message)
    }
}
