//! Verdict plumbing: observations, sharded worker processes, evidence, replays, known findings.

use std::collections::{BTreeMap, HashSet};
use std::io::Write;
use std::path::{Path, PathBuf};
use std::process::{Child, Command, Stdio};
use std::time::{Duration, Instant, SystemTime, UNIX_EPOCH};

use serde::{Deserialize, Serialize};
use serde_json::{json, Value};

use crate::panicx::{self, PanicInfo};
use crate::rng::{derive_seed, fnv64};

pub fn repo_dir() -> String {
    std::env::var("VERIF_REPO").unwrap_or_else(|_| "/repo".to_string())
}
pub fn verif_dir() -> String {
    std::env::var("VERIF_DIR").unwrap_or_else(|_| "/verif".to_string())
}
pub fn tmp_dir() -> PathBuf {
    let p = PathBuf::from(verif_dir()).join("target").join("tmp");
    let _ = std::fs::create_dir_all(&p);
    p
}

#[derive(Clone, Copy, Debug, PartialEq, Eq)]
pub enum Tier {
    Quick,
    Thorough,
}
impl Tier {
    pub fn parse(s: &str) -> Option<Tier> {
        match s {
            "quick" => Some(Tier::Quick),
            "thorough" => Some(Tier::Thorough),
            _ => None,
        }
    }
    pub fn name(self) -> &'static str {
        match self {
            Tier::Quick => "quick",
            Tier::Thorough => "thorough",
        }
    }
    pub fn pick(self, q: u64, t: u64) -> u64 {
        match self {
            Tier::Quick => q,
            Tier::Thorough => t,
        }
    }
}

pub struct Case<'a> {
    pub prop: &'a str,
    pub kind: &'a str,
    pub index: u64,
    pub seed: u64,
    pub base_seed: u64,
    pub tier: Tier,
}
impl<'a> Case<'a> {
    pub fn rng(&self) -> crate::rng::Rng {
        crate::rng::Rng::new(self.seed)
    }
}

#[derive(Clone, Debug, Serialize, Deserialize)]
pub struct Violation {
    pub signature: String,
    pub message: String,
    pub kind: String,
    pub index: u64,
    pub detail: Value,
}

#[derive(Default, Serialize, Deserialize)]
pub struct Obs {
    pub counters: BTreeMap<String, u64>,
    pub evaluations: u64,
    pub hashes: Vec<u64>,
    pub hash_overflow: u64,
    pub violations: Vec<Violation>,
    pub sig_counts: BTreeMap<String, u64>,
    pub ambiguous: u64,
    pub inconclusive: u64,
    pub samples: Vec<Value>,
    pub cases_run: BTreeMap<String, u64>,
    pub budget_exhausted: bool,
    pub harness_errors: Vec<String>,
    #[serde(skip)]
    progress_path: Option<PathBuf>,
    #[serde(skip)]
    cur_pos: u64,
    #[serde(skip)]
    cur_kind: String,
    #[serde(skip)]
    cur_index: u64,
    #[serde(skip)]
    seen: HashSet<u64>,
}

const MAX_HASHES: usize = 600_000;
const MAX_WITNESS_PER_SIG: u64 = 3;

impl Obs {
    pub fn begin(&mut self, kind: &str, index: u64) {
        self.cur_kind = kind.to_string();
        self.cur_index = index;
    }
    /// Describes what the running case is doing (kept in the worker's progress file so that the parent
    /// can name the input if the case never returns). `class` becomes part of the signature.
    pub fn note(&mut self, class: &str, text: &str) {
        if let Some(p) = &self.progress_path {
            let _ = std::fs::write(p, format!("{}\n{}\n{}", self.cur_pos, class, text));
        }
    }
    /// one execution of the real code observed by an oracle
    pub fn eval(&mut self) {
        self.evaluations += 1;
    }
    pub fn evals(&mut self, n: u64) {
        self.evaluations += n;
    }
    /// records a case that is non-trivial by the property's rule; `h` identifies it
    pub fn nontrivial(&mut self, h: u64) {
        if self.seen.len() >= MAX_HASHES {
            self.hash_overflow += 1;
            return;
        }
        if self.seen.insert(h) {
            self.hashes.push(h);
        }
    }
    pub fn nontrivial_str(&mut self, s: &str) {
        self.nontrivial(fnv64(s.as_bytes()));
    }
    pub fn count(&mut self, key: &str) {
        *self.counters.entry(key.to_string()).or_insert(0) += 1;
    }
    pub fn add(&mut self, key: &str, n: u64) {
        *self.counters.entry(key.to_string()).or_insert(0) += n;
    }
    pub fn max(&mut self, key: &str, n: u64) {
        let e = self.counters.entry(key.to_string()).or_insert(0);
        if n > *e {
            *e = n;
        }
    }
    pub fn ambiguous(&mut self, why: &str) {
        self.ambiguous += 1;
        self.count(&format!("ambiguous:{}", why));
    }
    pub fn inconclusive(&mut self, why: &str) {
        self.inconclusive += 1;
        self.count(&format!("inconclusive:{}", why));
    }
    pub fn sample(&mut self, v: Value) {
        if self.samples.len() < 4 {
            self.samples.push(v);
        }
    }
    pub fn violation(&mut self, signature: &str, message: String, detail: Value) {
        let n = self.sig_counts.entry(signature.to_string()).or_insert(0);
        *n += 1;
        if *n <= MAX_WITNESS_PER_SIG {
            self.violations.push(Violation {
                signature: signature.to_string(),
                message,
                kind: self.cur_kind.clone(),
                index: self.cur_index,
                detail,
            });
        }
    }
    /// a panic observed while the code under verification was running
    pub fn panic_violation(&mut self, p: &PanicInfo, context: Value) {
        if p.in_harness() {
            self.harness_error(format!("harness panic at {}", p.describe()));
            return;
        }
        let mut sig = p.signature();
        if p.is_overflow() {
            sig.push_str(" [overflow: wraps silently in the shipped release profile]");
        }
        self.violation(&sig, format!("panic at {}", p.describe()), context);
    }
    pub fn harness_error(&mut self, msg: String) {
        if self.harness_errors.len() < 20 {
            self.harness_errors.push(msg);
        }
    }
    pub fn merge(&mut self, o: Obs) {
        for (k, v) in o.counters {
            if k.starts_with("max:") {
                let e = self.counters.entry(k).or_insert(0);
                *e = (*e).max(v);
            } else {
                *self.counters.entry(k).or_insert(0) += v;
            }
        }
        self.evaluations += o.evaluations;
        for h in o.hashes {
            if self.seen.insert(h) {
                self.hashes.push(h);
            }
        }
        self.hash_overflow += o.hash_overflow;
        for (k, v) in o.sig_counts {
            *self.sig_counts.entry(k).or_insert(0) += v;
        }
        self.violations.extend(o.violations);
        self.ambiguous += o.ambiguous;
        self.inconclusive += o.inconclusive;
        for s in o.samples {
            if self.samples.len() < 5 {
                self.samples.push(s);
            }
        }
        for (k, v) in o.cases_run {
            *self.cases_run.entry(k).or_insert(0) += v;
        }
        self.budget_exhausted |= o.budget_exhausted;
        self.harness_errors.extend(o.harness_errors);
    }
}

pub trait Property: Sync {
    fn id(&self) -> &'static str;
    fn level(&self, _tier: Tier) -> &'static str {
        "exploration"
    }
    fn rule(&self) -> String;
    fn assumptions(&self) -> Vec<String>;
    /// (workload kind, number of cases) for the tier; counts may depend on the corpus found in /repo
    fn workloads(&self, tier: Tier) -> Vec<(String, u64)>;
    fn run_case(&self, case: &Case, obs: &mut Obs);
    /// counters that must reach a floor, else the run observed too little: HARNESS-ERROR
    fn required(&self, _tier: Tier) -> Vec<(String, u64)> {
        vec![]
    }
    fn exhaustive(&self, _tier: Tier) -> bool {
        false
    }
    fn shards(&self, _tier: Tier) -> usize {
        16
    }
    /// soft cap (seconds) after which workers stop starting new cases
    fn time_cap_s(&self, tier: Tier) -> u64 {
        tier.pick(150, 2400)
    }
    /// per-case watchdog (seconds); firing is inconclusive
    fn case_timeout_s(&self, tier: Tier) -> u64 {
        tier.pick(60, 300)
    }
    /// CPU-time budget of one case (seconds). A case that burns more CPU than this in its own worker
    /// process is reported as a hang (a verdict on consumed work, independent of machine load);
    /// None = no hang verdicts for this property.
    fn cpu_budget_s(&self, _tier: Tier) -> Option<u64> {
        None
    }
    /// extra keys for the evidence coverage object
    fn extra_evidence(&self, _agg: &Obs) -> Value {
        json!({})
    }
}

// ---------------------------------------------------------------------------------------
// worker

pub fn process_cpu_ms() -> u64 {
    unsafe {
        let mut ts: libc::timespec = std::mem::zeroed();
        if libc::clock_gettime(libc::CLOCK_PROCESS_CPUTIME_ID, &mut ts) == 0 {
            ts.tv_sec as u64 * 1000 + ts.tv_nsec as u64 / 1_000_000
        } else {
            0
        }
    }
}

fn now_s() -> u64 {
    SystemTime::now().duration_since(UNIX_EPOCH).unwrap().as_secs()
}

/// Flat list of (kind, index) in a fixed global order
fn case_list(workloads: &[(String, u64)]) -> Vec<(usize, u64)> {
    let mut v = Vec::new();
    // interleave workloads so that a time cap still leaves every workload sampled
    let maxn = workloads.iter().map(|w| w.1).max().unwrap_or(0);
    let _ = maxn;
    for (wi, (_, n)) in workloads.iter().enumerate() {
        for i in 0..*n {
            v.push((wi, i));
        }
    }
    v
}

pub struct WorkerArgs {
    pub tier: Tier,
    pub seed: u64,
    pub shard: usize,
    pub nshards: usize,
    pub start: u64,
    pub skip: Vec<u64>,
    pub out: PathBuf,
    pub deadline: u64,
}

fn write_atomic(path: &Path, data: &[u8]) {
    let tmp = path.with_extension("part");
    if let Ok(mut f) = std::fs::File::create(&tmp) {
        let _ = f.write_all(data);
        let _ = f.sync_data();
    }
    let _ = std::fs::rename(&tmp, path);
}

#[derive(Serialize, Deserialize, Default)]
struct WorkerFile {
    obs: Obs,
    /// global positions < done_upto (of this shard's stride) are accounted for in obs
    done_upto: u64,
    finished: bool,
    restart: bool,
}

/// Runs the shard; returns the process exit code (0 done, 3 restart requested).
pub fn run_worker(prop: &dyn Property, a: WorkerArgs) -> i32 {
    panicx::install_hook();
    crate::fdcap::init();
    let workloads = prop.workloads(a.tier);
    let cases = case_list(&workloads);
    let mut wf = WorkerFile::default();
    wf.done_upto = a.start;
    let progress_path = a.out.with_extension("cur");
    let case_timeout = prop.case_timeout_s(a.tier);

    // watchdog thread: exits the process if one case exceeds its wall-clock budget (inconclusive)
    // or its CPU budget (hang verdict, for properties that ask for it)
    let cur_started = std::sync::Arc::new(std::sync::atomic::AtomicU64::new(0));
    let cur_cpu0 = std::sync::Arc::new(std::sync::atomic::AtomicU64::new(0));
    let cpu_budget = prop.cpu_budget_s(a.tier);
    {
        let cur_started = cur_started.clone();
        let cur_cpu0 = cur_cpu0.clone();
        std::thread::spawn(move || loop {
            std::thread::sleep(Duration::from_millis(250));
            let st = cur_started.load(std::sync::atomic::Ordering::Relaxed);
            if st == 0 {
                continue;
            }
            if let Some(b) = cpu_budget {
                let used = process_cpu_ms().saturating_sub(cur_cpu0.load(std::sync::atomic::Ordering::Relaxed));
                if used > b * 1000 {
                    unsafe { libc::_exit(5) };
                }
            }
            if now_s() > st + case_timeout {
                unsafe { libc::_exit(4) };
            }
        });
    }
    wf.obs.progress_path = Some(progress_path.clone());

    let mut last_flush = Instant::now();
    let mut pos = a.start;
    let total = cases.len() as u64;
    while pos < total {
        if pos % a.nshards as u64 != a.shard as u64 || a.skip.contains(&pos) {
            pos += 1;
            continue;
        }
        if now_s() >= a.deadline {
            wf.obs.budget_exhausted = true;
            break;
        }
        let (wi, index) = cases[pos as usize];
        let kind = workloads[wi].0.as_str();
        let seed = derive_seed(a.seed, prop.id(), kind, index);
        let case = Case { prop: prop.id(), kind, index, seed, base_seed: a.seed, tier: a.tier };
        let _ = std::fs::write(&progress_path, pos.to_string());
        wf.obs.cur_pos = pos;
        cur_cpu0.store(process_cpu_ms(), std::sync::atomic::Ordering::Relaxed);
        cur_started.store(now_s(), std::sync::atomic::Ordering::Relaxed);
        wf.obs.begin(kind, index);
        let r = panicx::guard(|| prop.run_case(&case, &mut wf.obs));
        cur_started.store(0, std::sync::atomic::Ordering::Relaxed);
        if let Err(p) = r {
            // A panic that escaped the property's own guards: attribute it.
            wf.obs.panic_violation(&p, json!({"escaped_case_guard": true, "kind": kind, "index": index}));
        }
        *wf.obs.cases_run.entry(kind.to_string()).or_insert(0) += 1;
        if wf.obs.samples.is_empty() {
            // fallback sample: the descriptor from which this case is regenerated
            wf.obs.samples.push(json!({"workload": kind, "case_index": index, "case_seed": seed, "note": "no richer sample recorded by this property for this case; the case is a pure function of these three values"}));
        }
        pos += 1;
        wf.done_upto = pos;
        if crate::tables_poisoned() {
            // state of this process is tainted by a panic under a table lock: hand over
            wf.obs.count("worker_restarts_after_poisoned_table");
            wf.restart = true;
            break;
        }
        if last_flush.elapsed() > Duration::from_secs(5) {
            write_atomic(&a.out, &serde_json::to_vec(&wf).unwrap());
            last_flush = Instant::now();
        }
    }
    if !wf.restart {
        wf.finished = true;
        wf.done_upto = total;
    }
    write_atomic(&a.out, &serde_json::to_vec(&wf).unwrap());
    let _ = std::fs::remove_file(&progress_path);
    if wf.restart {
        3
    } else {
        0
    }
}

// ---------------------------------------------------------------------------------------
// parent

struct Shard {
    idx: usize,
    child: Option<Child>,
    out: PathBuf,
    start: u64,
    skip: Vec<u64>,
    respawns: u32,
    acc: Obs,
    done: bool,
    generation: u32,
}

fn spawn_worker(prop: &dyn Property, tier: Tier, seed: u64, sh: &mut Shard, nshards: usize, deadline: u64) {
    sh.generation += 1;
    sh.out = tmp_dir().join(format!(
        "{}.{}.{}.{}.{}.json",
        prop.id(),
        tier.name(),
        std::process::id(),
        sh.idx,
        sh.generation
    ));
    let _ = std::fs::remove_file(&sh.out);
    let exe = std::env::current_exe().expect("current_exe");
    let skip = sh.skip.iter().map(|s| s.to_string()).collect::<Vec<_>>().join(",");
    let child = Command::new(exe)
        .arg("worker")
        .arg(prop.id())
        .arg(tier.name())
        .arg(seed.to_string())
        .arg(sh.idx.to_string())
        .arg(nshards.to_string())
        .arg(sh.start.to_string())
        .arg(if skip.is_empty() { "-".to_string() } else { skip })
        .arg(&sh.out)
        .arg(deadline.to_string())
        .stdin(Stdio::null())
        .stdout(Stdio::null())
        .stderr(Stdio::inherit())
        .spawn()
        .expect("spawn worker");
    sh.child = Some(child);
}

fn absorb(sh: &mut Shard) -> Option<WorkerFile> {
    let data = std::fs::read(&sh.out).ok()?;
    let wf: WorkerFile = serde_json::from_slice(&data).ok()?;
    Some(wf)
}

#[derive(Deserialize, Default)]
pub struct KnownFindings {
    #[serde(default)]
    pub known: Vec<KnownEntry>,
    #[serde(default)]
    pub fixed: Vec<String>,
}
#[derive(Deserialize, Clone)]
pub struct KnownEntry {
    pub property: String,
    pub signature: String,
    #[serde(default)]
    pub what: String,
}

pub fn load_known() -> KnownFindings {
    let p = PathBuf::from(verif_dir()).join("known_findings.json");
    match std::fs::read_to_string(&p) {
        Ok(s) => serde_json::from_str(&s).unwrap_or_default(),
        Err(_) => KnownFindings::default(),
    }
}

pub fn run_check(prop: &dyn Property, tier: Tier, seed: u64) -> i32 {
    let t0 = Instant::now();
    let workloads = prop.workloads(tier);
    let total: u64 = workloads.iter().map(|w| w.1).sum();
    let nshards = prop.shards(tier).max(1).min(total.max(1) as usize);
    let deadline = now_s() + prop.time_cap_s(tier);
    let hard_deadline = deadline + prop.case_timeout_s(tier) + 120;

    let mut shards: Vec<Shard> = (0..nshards)
        .map(|idx| Shard {
            idx,
            child: None,
            out: PathBuf::new(),
            start: 0,
            skip: vec![],
            respawns: 0,
            acc: Obs::default(),
            done: false,
            generation: 0,
        })
        .collect();
    for sh in shards.iter_mut() {
        spawn_worker(prop, tier, seed, sh, nshards, deadline);
    }
    let mut agg = Obs::default();
    loop {
        let mut all_done = true;
        for sh in shards.iter_mut() {
            if sh.done {
                continue;
            }
            all_done = false;
            let status = match sh.child.as_mut().unwrap().try_wait() {
                Ok(Some(st)) => st,
                Ok(None) => {
                    if now_s() > hard_deadline {
                        let _ = sh.child.as_mut().unwrap().kill();
                        let _ = sh.child.as_mut().unwrap().wait();
                        if let Some(wf) = absorb(sh) {
                            sh.acc.merge(wf.obs);
                        }
                        sh.acc.inconclusive("parent-watchdog-killed-shard");
                        sh.done = true;
                    }
                    continue;
                }
                Err(_) => continue,
            };
            let code = status.code();
            let wf = absorb(sh);
            let cur_text = std::fs::read_to_string(sh.out.with_extension("cur")).unwrap_or_default();
            let mut cur_lines = cur_text.lines();
            let cur: Option<u64> = cur_lines.next().and_then(|s| s.trim().parse().ok());
            let cur_class = cur_lines.next().unwrap_or("").to_string();
            let cur_note = cur_lines.collect::<Vec<_>>().join(" ");
            let _ = std::fs::remove_file(sh.out.with_extension("cur"));
            match (code, wf) {
                (Some(0), Some(wf)) if wf.finished => {
                    sh.acc.merge(wf.obs);
                    sh.done = true;
                }
                (Some(3), Some(wf)) if wf.restart => {
                    sh.start = wf.done_upto;
                    sh.acc.merge(wf.obs);
                    spawn_worker(prop, tier, seed, sh, nshards, deadline);
                }
                (code, wf) => {
                    // died: watchdog (4), signal, abort … keep what was flushed, skip the case
                    // that was running, continue after the last flushed position.
                    if code == Some(5) {
                        // the case burnt its CPU budget without returning: a hang, decided on consumed work
                        if let Some(c) = cur {
                            let cases = case_list(&workloads);
                            let (wi, index) = cases.get(c as usize).copied().unwrap_or((0, 0));
                            let kind = workloads.get(wi).map(|w| w.0.clone()).unwrap_or_default();
                            sh.acc.begin(&kind, index);
                            sh.acc.violation(
                                &format!("hang:{}", if cur_class.is_empty() { kind.clone() } else { cur_class.clone() }),
                                format!("case {}#{} consumed more than {} s of CPU without returning ({})", kind, index, prop.cpu_budget_s(tier).unwrap_or(0), cur_note),
                                json!({"note": cur_note, "cpu_budget_s": prop.cpu_budget_s(tier)}),
                            );
                        }
                    }
                    let why = match code {
                        Some(4) => "case-watchdog".to_string(),
                        Some(5) => "cpu-budget(hang verdict recorded)".to_string(),
                        Some(c) => format!("worker-exit-{}", c),
                        None => "worker-killed-by-signal".to_string(),
                    };
                    let mut resume = sh.start;
                    if let Some(wf) = wf {
                        resume = wf.done_upto.max(resume);
                        sh.acc.merge(wf.obs);
                    }
                    if code != Some(5) {
                        sh.acc.inconclusive(&why);
                    } else {
                        sh.acc.count("hang_verdicts");
                    }
                    if let Some(c) = cur {
                        sh.skip.push(c);
                        sh.acc.count(&format!("skipped_case_after_{}", why));
                        eprintln!("[{}] shard {} died ({}) at global case {}; case skipped as inconclusive", prop.id(), sh.idx, why, c);
                    }
                    sh.respawns += 1;
                    if sh.respawns > 40 {
                        sh.acc.harness_error(format!("shard {} died {} times", sh.idx, sh.respawns));
                        sh.done = true;
                    } else {
                        sh.start = resume;
                        spawn_worker(prop, tier, seed, sh, nshards, deadline);
                    }
                }
            }
            if sh.done {
                let _ = std::fs::remove_file(&sh.out);
            }
        }
        if all_done {
            break;
        }
        std::thread::sleep(Duration::from_millis(30));
    }
    for sh in shards {
        agg.merge(sh.acc);
    }
    finish(prop, tier, seed, agg, &workloads, t0.elapsed().as_secs_f64())
}

fn sanitize(s: &str) -> String {
    s.chars().map(|c| if c.is_ascii_alphanumeric() { c } else { '_' }).take(60).collect()
}

fn finish(prop: &dyn Property, tier: Tier, seed: u64, agg: Obs, workloads: &[(String, u64)], wall: f64) -> i32 {
    let id = prop.id();
    let known = load_known();
    let known_here: Vec<&KnownEntry> = known.known.iter().filter(|k| k.property == id).collect();

    // coverage floor
    let mut harness_errors = agg.harness_errors.clone();
    for (key, floor) in prop.required(tier) {
        // "distinct:<prefix>" = number of different counters whose name starts with <prefix>
        let got = match key.strip_prefix("distinct:") {
            Some(prefix) => agg.counters.keys().filter(|k| k.starts_with(prefix)).count() as u64,
            None => agg.counters.get(&key).copied().unwrap_or(0),
        };
        if got < floor && !agg.budget_exhausted {
            harness_errors.push(format!("coverage floor not reached: {} = {} < {}", key, got, floor));
        }
    }
    if agg.evaluations == 0 {
        harness_errors.push("the run observed nothing (0 evaluations)".into());
    }

    // violations: split into known / new
    let mut new_sigs: BTreeMap<String, u64> = BTreeMap::new();
    let mut known_counts: BTreeMap<String, u64> = BTreeMap::new();
    for (sig, n) in &agg.sig_counts {
        if known_here.iter().any(|k| &k.signature == sig) {
            known_counts.insert(sig.clone(), *n);
        } else {
            new_sigs.insert(sig.clone(), *n);
        }
    }
    let replay_dir = PathBuf::from(verif_dir()).join("replays").join(id);
    let _ = std::fs::create_dir_all(&replay_dir);
    let mut printed = 0;
    let mut written: HashSet<String> = HashSet::new();
    for v in &agg.violations {
        if !new_sigs.contains_key(&v.signature) || written.contains(&v.signature) {
            continue;
        }
        written.insert(v.signature.clone());
        let name = format!("{}_{:016x}.json", sanitize(&v.signature), fnv64(format!("{}{}{}", v.signature, v.kind, v.index).as_bytes()));
        let path = replay_dir.join(name);
        let rec = json!({
            "property": id, "tier": tier.name(), "seed": seed, "kind": v.kind, "index": v.index,
            "signature": v.signature, "message": v.message, "occurrences_in_run": new_sigs[&v.signature],
            "detail": v.detail,
        });
        let _ = std::fs::write(&path, serde_json::to_string_pretty(&rec).unwrap());
        if printed < 25 {
            println!("VIOLATION property={} replay={}", id, path.display());
            println!("  signature: {}", v.signature);
            println!("  {} (x{})", v.message.chars().take(300).collect::<String>(), new_sigs[&v.signature]);
            printed += 1;
        }
    }
    if new_sigs.len() > printed {
        println!("  … {} further distinct violation signatures (see {})", new_sigs.len() - printed, replay_dir.display());
    }
    for k in &known_here {
        let n = known_counts.get(&k.signature).copied().unwrap_or(0);
        println!("KNOWN-FINDING: property={} {} [{}] (seen {} times in this run)", id, k.what, k.signature, n);
    }

    let distinct = agg.hashes.len() as u64;
    let mut coverage = json!({
        "evaluations": agg.evaluations,
        "distinct_nontrivial": distinct,
        "rule": prop.rule(),
        "samples": agg.samples,
        "exhaustive": prop.exhaustive(tier) && !agg.budget_exhausted,
        "counters": agg.counters,
        "workloads_planned": workloads.iter().map(|(k, n)| (k.clone(), json!(n))).collect::<serde_json::Map<_, _>>(),
        "workloads_run": agg.cases_run,
        "ambiguous": agg.ambiguous,
        "inconclusive": agg.inconclusive,
        "budget_exhausted": agg.budget_exhausted,
        "distinct_hashes_not_stored": agg.hash_overflow,
        "violation_signatures_new": new_sigs,
        "known_findings_matched": known_counts,
        "harness_errors": harness_errors,
    });
    if let (Value::Object(c), Value::Object(e)) = (&mut coverage, prop.extra_evidence(&agg)) {
        for (k, v) in e {
            c.insert(k, v);
        }
    }
    let evidence = json!({
        "property_id": id,
        "tier": tier.name(),
        "seed": seed,
        "level": prop.level(tier),
        "coverage": coverage,
        "assumptions": prop.assumptions(),
        "wall_s": (wall * 100.0).round() / 100.0,
        "violations": new_sigs.len(),
    });
    let evdir = PathBuf::from(verif_dir()).join("evidence");
    let _ = std::fs::create_dir_all(&evdir);
    let evpath = evdir.join(format!("{}.json", id));
    let _ = std::fs::write(&evpath, serde_json::to_string_pretty(&evidence).unwrap());

    println!(
        "[{}] tier={} seed={} evaluations={} distinct_nontrivial={} ambiguous={} inconclusive={} new_violation_signatures={} known_matched={} wall={:.1}s{}",
        id, tier.name(), seed, agg.evaluations, distinct, agg.ambiguous, agg.inconclusive, new_sigs.len(), known_counts.len(), wall,
        if agg.budget_exhausted { " (time cap reached: budget_exhausted)" } else { "" }
    );
    if !new_sigs.is_empty() {
        return 1;
    }
    if !harness_errors.is_empty() || distinct < 2 {
        for e in &harness_errors {
            println!("HARNESS-ERROR {}", e);
        }
        if distinct < 2 {
            println!("HARNESS-ERROR fewer than 2 distinct non-trivial cases observed");
        }
        return 2;
    }
    0
}

/// Re-runs the single case recorded in a replay file, in-process.
pub fn run_replay(prop: &dyn Property, path: &str) -> i32 {
    panicx::install_hook();
    crate::fdcap::init();
    let rec: Value = match std::fs::read_to_string(path).ok().and_then(|s| serde_json::from_str(&s).ok()) {
        Some(v) => v,
        None => {
            println!("HARNESS-ERROR cannot read replay file {}", path);
            return 2;
        }
    };
    let kind = rec["kind"].as_str().unwrap_or("").to_string();
    let index = rec["index"].as_u64().unwrap_or(0);
    let seed = rec["seed"].as_u64().unwrap_or(0);
    let tier = Tier::parse(rec["tier"].as_str().unwrap_or("quick")).unwrap_or(Tier::Quick);
    let case = Case { prop: prop.id(), kind: &kind, index, seed: derive_seed(seed, prop.id(), &kind, index), base_seed: seed, tier };
    let mut obs = Obs::default();
    obs.begin(&kind, index);
    if let Err(p) = panicx::guard(|| prop.run_case(&case, &mut obs)) {
        obs.panic_violation(&p, json!({"escaped_case_guard": true}));
    }
    let known = load_known();
    let mut bad = false;
    for v in &obs.violations {
        let is_known = known.known.iter().any(|k| k.property == prop.id() && k.signature == v.signature);
        println!("{} signature={} :: {}", if is_known { "KNOWN-FINDING:" } else { "REPRODUCED" }, v.signature, v.message);
        println!("{}", serde_json::to_string_pretty(&v.detail).unwrap_or_default());
        if !is_known {
            bad = true;
        }
    }
    if bad {
        println!("VIOLATION property={} replay={}", prop.id(), path);
        1
    } else {
        println!("[{}] replay of {}#{}: no violation reproduced ({} evaluations)", prop.id(), kind, index, obs.evaluations);
        0
    }
}
