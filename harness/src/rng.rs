//! xoshiro256** + splitmix64; the only source of randomness in the harness.
//! Every case derives its generator from (VERIF_SEED, property, workload kind, case index).

#[derive(Clone, Debug)]
pub struct Rng {
    s: [u64; 4],
}

pub fn splitmix64(state: &mut u64) -> u64 {
    *state = state.wrapping_add(0x9E37_79B9_7F4A_7C15);
    let mut z = *state;
    z = (z ^ (z >> 30)).wrapping_mul(0xBF58_476D_1CE4_E5B9);
    z = (z ^ (z >> 27)).wrapping_mul(0x94D0_49BB_1331_11EB);
    z ^ (z >> 31)
}

/// FNV-1a 64 over bytes (used for case hashes and seed derivation)
pub fn fnv64(data: &[u8]) -> u64 {
    let mut h: u64 = 0xcbf2_9ce4_8422_2325;
    for b in data {
        h ^= *b as u64;
        h = h.wrapping_mul(0x0000_0100_0000_01B3);
    }
    h
}

pub fn derive_seed(base: u64, prop: &str, kind: &str, index: u64) -> u64 {
    let mut st = base ^ fnv64(prop.as_bytes()).rotate_left(17) ^ fnv64(kind.as_bytes()).rotate_left(41);
    st = st.wrapping_add(index.wrapping_mul(0xD6E8_FEB8_6659_FD93));
    let a = splitmix64(&mut st);
    let b = splitmix64(&mut st);
    a ^ b.rotate_left(32)
}

impl Rng {
    pub fn new(seed: u64) -> Self {
        let mut st = seed;
        let s = [
            splitmix64(&mut st),
            splitmix64(&mut st),
            splitmix64(&mut st),
            splitmix64(&mut st),
        ];
        Rng { s }
    }
    pub fn next_u64(&mut self) -> u64 {
        let result = self.s[1].wrapping_mul(5).rotate_left(7).wrapping_mul(9);
        let t = self.s[1] << 17;
        self.s[2] ^= self.s[0];
        self.s[3] ^= self.s[1];
        self.s[1] ^= self.s[2];
        self.s[0] ^= self.s[3];
        self.s[2] ^= t;
        self.s[3] = self.s[3].rotate_left(45);
        result
    }
    pub fn next_u32(&mut self) -> u32 {
        (self.next_u64() >> 32) as u32
    }
    /// uniform in [0,1)
    pub fn f64(&mut self) -> f64 {
        (self.next_u64() >> 11) as f64 / (1u64 << 53) as f64
    }
    pub fn f32(&mut self) -> f32 {
        self.f64() as f32
    }
    /// uniform integer in [0,n)
    pub fn below(&mut self, n: u64) -> u64 {
        if n == 0 {
            return 0;
        }
        // rejection-free multiply-shift (bias negligible for n << 2^64)
        ((self.next_u64() as u128 * n as u128) >> 64) as u64
    }
    pub fn usize(&mut self, n: usize) -> usize {
        self.below(n as u64) as usize
    }
    /// inclusive range
    pub fn range_i(&mut self, lo: i64, hi: i64) -> i64 {
        lo + self.below((hi - lo + 1) as u64) as i64
    }
    pub fn range_f(&mut self, lo: f64, hi: f64) -> f64 {
        lo + (hi - lo) * self.f64()
    }
    pub fn chance(&mut self, p: f64) -> bool {
        self.f64() < p
    }
    pub fn pick<'a, T>(&mut self, xs: &'a [T]) -> &'a T {
        &xs[self.usize(xs.len())]
    }
    pub fn shuffle<T>(&mut self, xs: &mut [T]) {
        for i in (1..xs.len()).rev() {
            let j = self.usize(i + 1);
            xs.swap(i, j);
        }
    }
    /// value rounded to `dec` decimals in [lo,hi]
    pub fn dec(&mut self, lo: f64, hi: f64, dec: i32) -> f64 {
        let p = 10f64.powi(dec);
        (self.range_f(lo, hi) * p).round() / p
    }
    /// value rounded to 2 or 3 decimals (coin flip)
    pub fn dec23(&mut self, lo: f64, hi: f64) -> f64 {
        let d = if self.chance(0.5) { 2 } else { 3 };
        self.dec(lo, hi, d)
    }
    /// value rounded to 0 or 2 decimals (coin flip)
    pub fn dec02(&mut self, lo: f64, hi: f64) -> f64 {
        let d = if self.chance(0.5) { 0 } else { 2 };
        self.dec(lo, hi, d)
    }
    /// log-uniform in [lo,hi]
    pub fn logu(&mut self, lo: f64, hi: f64) -> f64 {
        (self.range_f(lo.ln(), hi.ln())).exp()
    }
}
