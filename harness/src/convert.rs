//! Thin wrappers that drive the library's conversion entry points under a panic guard.

use std::convert::TryFrom;
use std::path::Path;

use bemodel::Model;
use hulc::bdl::Data;
use hulc::ctehexml::{self, CtehexmlData};

use crate::panicx::{guard, PanicInfo};

pub enum Conv {
    Ok(Model),
    Err(String),
    Panic(PanicInfo),
}

/// .ctehexml text -> model (parse_with_catalog + try_from)
pub fn convert_ctehexml_text(text: &str) -> Conv {
    match guard(|| ctehexml::parse_with_catalog(text).and_then(|d| Model::try_from(&d))) {
        Ok(Ok(m)) => Conv::Ok(m),
        Ok(Err(e)) => Conv::Err(format!("{}", e).chars().take(300).collect()),
        Err(p) => Conv::Panic(p),
    }
}

/// LIDER BDL text -> model, with the LIDER catalogue merged exactly as parse_with_catalog does
pub fn convert_bdl_text(text: &str) -> Conv {
    let r = guard(|| -> Result<Model, anyhow::Error> {
        let bdldata = Data::new(text)?;
        let mut d = CtehexmlData { bdldata, ..Default::default() };
        let mut db = d.bdldata.db;
        let cat = ctehexml::load_lider_catalog()?;
        db.materials.extend(cat.materials);
        db.wallcons.extend(cat.wallcons);
        db.wincons.extend(cat.wincons);
        db.glasses.extend(cat.glasses);
        db.frames.extend(cat.frames);
        d.bdldata.db = db;
        Model::try_from(&d)
    });
    match r {
        Ok(Ok(m)) => Conv::Ok(m),
        Ok(Err(e)) => Conv::Err(format!("{}", e).chars().take(300).collect()),
        Err(p) => Conv::Panic(p),
    }
}

pub fn convert_path(path: &Path) -> Conv {
    let ext = path.extension().and_then(|e| e.to_str()).unwrap_or("").to_lowercase();
    if ext == "ctehexml" {
        convert_ctehexml_text(&crate::corpus::read_utf8(path))
    } else {
        convert_bdl_text(&crate::corpus::read_latin1(path))
    }
}

/// all real project files (12 .ctehexml + 56 .cte)
pub fn real_project_files() -> Vec<std::path::PathBuf> {
    let mut v = crate::corpus::ctehexml_files();
    v.extend(crate::corpus::cte_files());
    v
}

static CATALOG: std::sync::OnceLock<Option<hulc::bdl::DB>> = std::sync::OnceLock::new();

fn cached_catalog() -> Option<hulc::bdl::DB> {
    CATALOG.get_or_init(|| guard(|| ctehexml::load_lider_catalog().ok()).ok().flatten()).clone()
}

fn merge_cached(d: &mut CtehexmlData) {
    if let Some(cat) = cached_catalog() {
        let mut db = std::mem::take(&mut d.bdldata.db);
        db.materials.extend(cat.materials);
        db.wallcons.extend(cat.wallcons);
        db.wincons.extend(cat.wincons);
        db.glasses.extend(cat.glasses);
        db.frames.extend(cat.frames);
        d.bdldata.db = db;
    }
}

/// like parse_with_catalog + try_from, with the (input independent) catalogue parsed once per process
pub fn convert_ctehexml_fast(text: &str) -> Conv {
    match guard(|| {
        ctehexml::parse(text).and_then(|mut d| {
            merge_cached(&mut d);
            Model::try_from(&d)
        })
    }) {
        Ok(Ok(m)) => Conv::Ok(m),
        Ok(Err(e)) => Conv::Err(format!("{:#}", e).chars().take(300).collect()),
        Err(p) => Conv::Panic(p),
    }
}

pub fn convert_bdl_fast(text: &str) -> Conv {
    match guard(|| {
        Data::new(text).and_then(|bdldata| {
            let mut d = CtehexmlData { bdldata, ..Default::default() };
            merge_cached(&mut d);
            Model::try_from(&d)
        })
    }) {
        Ok(Ok(m)) => Conv::Ok(m),
        Ok(Err(e)) => Conv::Err(format!("{:#}", e).chars().take(300).collect()),
        Err(p) => Conv::Panic(p),
    }
}

/// (is_xml, full text, BDL text) of a real project file
pub fn project_texts(path: &Path) -> (bool, String, String) {
    let ext = path.extension().and_then(|e| e.to_str()).unwrap_or("").to_lowercase();
    if ext == "ctehexml" {
        let t = crate::corpus::read_utf8(path);
        let bdl = crate::oracle::bdlread::bdl_span(&t).map(|(a, b)| t[a..b].to_string()).unwrap_or_default();
        (true, t, bdl)
    } else {
        let t = crate::corpus::read_latin1(path);
        (false, t.clone(), t)
    }
}

/// One conversion in four (chosen by the text itself, so the choice is reproducible) goes through the library's own
/// route (parse_with_catalog + try_from, catalogue decompressed and merged by the library); the others use the
/// cached-catalogue shortcut. Monitors of what a conversion yields use this; monitors of the route itself (C01, C05) do not.
pub fn convert_text_routed(is_xml: bool, text: &str) -> Conv {
    let own_route = crate::rng::fnv64(text.as_bytes()) % 4 == 0;
    match (is_xml, own_route) {
        (true, true) => convert_ctehexml_text(text),
        (false, true) => convert_bdl_text(text),
        (true, false) => convert_ctehexml_fast(text),
        (false, false) => convert_bdl_fast(text),
    }
}
