//! The shipped corpus, enumerated at run time from /repo (never copied).

use std::path::{Path, PathBuf};

use crate::core::repo_dir;

fn walk(dir: &Path, out: &mut Vec<PathBuf>) {
    if let Ok(rd) = std::fs::read_dir(dir) {
        let mut entries: Vec<_> = rd.flatten().map(|e| e.path()).collect();
        entries.sort();
        for p in entries {
            if p.is_dir() {
                if p.file_name().map_or(false, |n| n == "target" || n == ".git") {
                    continue;
                }
                walk(&p, out);
            } else {
                out.push(p);
            }
        }
    }
}

fn all_files() -> Vec<PathBuf> {
    let mut v = Vec::new();
    for sub in ["hulc_tests", "bemodel/tests", "hulc/tests", "hulc/src", "climate/src"] {
        walk(&PathBuf::from(repo_dir()).join(sub), &mut v);
    }
    v
}

fn with_ext(exts: &[&str]) -> Vec<PathBuf> {
    all_files()
        .into_iter()
        .filter(|p| {
            p.extension()
                .and_then(|e| e.to_str())
                .map_or(false, |e| exts.iter().any(|x| x.eq_ignore_ascii_case(e)))
        })
        .collect()
}

/// 12 HULC projects
pub fn ctehexml_files() -> Vec<PathBuf> {
    with_ext(&["ctehexml"])
}
/// legacy LIDER files (Latin-1)
pub fn cte_files() -> Vec<PathBuf> {
    with_ext(&["cte"])
}
pub fn kyg_files() -> Vec<PathBuf> {
    all_files()
        .into_iter()
        .filter(|p| p.file_name().map_or(false, |n| n.to_string_lossy().starts_with("KyGananciasSolares")))
        .collect()
}
pub fn tbl_files() -> Vec<PathBuf> {
    with_ext(&["tbl"])
}
/// model JSON files shipped under bemodel/tests/data (not the *_results.json)
pub fn model_json_files() -> Vec<PathBuf> {
    let mut v = Vec::new();
    walk(&PathBuf::from(repo_dir()).join("bemodel/tests/data"), &mut v);
    v.into_iter()
        .filter(|p| {
            let n = p.file_name().unwrap().to_string_lossy().to_string();
            n.ends_with(".json") && !n.ends_with("_results.json")
        })
        .collect()
}
/// project directories (each holds one .ctehexml)
pub fn project_dirs() -> Vec<PathBuf> {
    let mut v: Vec<PathBuf> = ctehexml_files().iter().filter_map(|p| p.parent().map(|d| d.to_path_buf())).collect();
    v.sort();
    v.dedup();
    v
}
/// (project .ctehexml, reference model JSON) pairs of the Makefile
pub fn reference_pairs() -> Vec<(PathBuf, PathBuf)> {
    let models = model_json_files();
    let mut out = Vec::new();
    for p in ctehexml_files() {
        let stem = p.file_stem().unwrap().to_string_lossy().to_lowercase();
        let want = match stem.as_str() {
            "casoa" => "caso_a".to_string(),
            s => s.to_string(),
        };
        if let Some(m) = models.iter().find(|m| m.file_stem().unwrap().to_string_lossy() == want) {
            out.push((p.clone(), m.clone()));
        }
    }
    out
}

pub fn read_latin1(path: &Path) -> String {
    let bytes = std::fs::read(path).unwrap_or_default();
    bytes.iter().map(|&b| b as char).collect()
}
pub fn read_utf8(path: &Path) -> String {
    String::from_utf8_lossy(&std::fs::read(path).unwrap_or_default()).to_string()
}

/// The BDL text (EntradaGraficaLIDER) of a .ctehexml, extracted without the library's XML code
pub fn bdl_text_of_ctehexml(xml: &str) -> Option<(usize, usize)> {
    let open = xml.find("<EntradaGraficaLIDER>")? + "<EntradaGraficaLIDER>".len();
    let close = xml[open..].find("</EntradaGraficaLIDER>")? + open;
    Some((open, close))
}
