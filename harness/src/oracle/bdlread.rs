//! Independent reader of BDL text (shares no code with hulc::bdl): a block splitter that keeps
//! raw attribute strings, plus typed accessors used by the C02 / C03 / C17 oracles.

#[derive(Clone, Debug)]
pub struct RBlock {
    pub name: String,
    pub btype: String,
    pub attrs: Vec<(String, String)>,
    pub parent: Option<String>,
    /// index of the first and last source line (0-based, inclusive) of the block incl. its terminator
    pub lines: (usize, usize),
}

impl RBlock {
    pub fn raw(&self, key: &str) -> Option<&str> {
        self.attrs.iter().rev().find(|(k, _)| k == key).map(|(_, v)| v.as_str())
    }
    pub fn num(&self, key: &str) -> Option<f64> {
        self.raw(key).and_then(|v| v.trim().trim_matches('"').trim().parse::<f64>().ok())
    }
    pub fn text(&self, key: &str) -> Option<String> {
        self.raw(key).map(|v| v.trim().trim_matches('"').trim().to_string())
    }
    pub fn numbers(&self, key: &str) -> Option<Vec<f64>> {
        let v = self.raw(key)?;
        let t = v.trim().trim_start_matches('(').trim_end_matches(')');
        t.split(',').map(|x| x.trim().parse::<f64>().ok()).collect()
    }
    pub fn names(&self, key: &str) -> Vec<String> {
        let mut out = vec![];
        if let Some(v) = self.raw(key) {
            let mut cur = String::new();
            let mut inq = false;
            for c in v.chars() {
                if c == '"' {
                    if inq {
                        out.push(cur.trim().to_string());
                        cur.clear();
                    }
                    inq = !inq;
                } else if inq {
                    cur.push(c);
                }
            }
        }
        out
    }
    /// vertices V1, V2, … as number lists
    pub fn vertices(&self) -> Vec<Vec<f64>> {
        let mut out = vec![];
        for i in 1.. {
            match self.numbers(&format!("V{}", i)) {
                Some(v) => out.push(v),
                None => break,
            }
        }
        out
    }
}

fn is_noise(l: &str) -> bool {
    let t = l.trim();
    t.is_empty() || t.starts_with('$') || t.starts_with('+') || t.starts_with("TEMPLARY") || t == "MARCOS" || t == "HUECOS" || t == "PUENTES TERMICOS"
}

pub fn read_blocks(text: &str) -> Vec<RBlock> {
    let lines: Vec<&str> = text.lines().map(|l| l.trim_end_matches('\r')).collect();
    let mut out: Vec<RBlock> = vec![];
    let mut cur: Option<RBlock> = None;
    let (mut floor, mut space, mut wall) = ("Default".to_string(), String::new(), String::new());
    let mut i = 0;
    while i < lines.len() {
        let raw = lines[i].replace('ÿ', "");
        let mut l = raw.trim().to_string();
        if is_noise(&l) {
            i += 1;
            continue;
        }
        // terminator on its own or at the end of the line
        let mut ends = false;
        if l == ".." {
            ends = true;
            l.clear();
        } else if l.ends_with("..") && !l.ends_with("...") {
            ends = true;
            l = l[..l.len() - 2].trim().to_string();
        }
        if !l.is_empty() {
            if let Some(eq) = l.find('=') {
                let (k, v) = (l[..eq].trim().to_string(), l[eq + 1..].trim().to_string());
                let is_header = cur.is_none() && k.starts_with('"');
                if is_header {
                    cur = Some(RBlock { name: k.trim_matches('"').trim().to_string(), btype: v.clone(), attrs: vec![], parent: None, lines: (i, i) });
                } else if let Some(b) = cur.as_mut() {
                    // parenthesised values may continue on the next lines
                    let mut val = v.clone();
                    if val.starts_with('(') && !val.ends_with(')') {
                        while i + 1 < lines.len() {
                            i += 1;
                            let nx = lines[i].trim();
                            if is_noise(nx) {
                                continue;
                            }
                            let mut piece = nx.to_string();
                            if piece.ends_with("..") && piece.trim_end_matches('.').trim_end().ends_with(')') {
                                ends = true;
                                piece = piece[..piece.len() - 2].trim().to_string();
                            }
                            val.push_str(&piece);
                            if piece.ends_with(')') {
                                break;
                            }
                        }
                    }
                    b.attrs.push((k, val));
                }
                // loose attributes before the first block (HULC's preamble) are ignored
            }
        }
        if ends {
            if let Some(mut b) = cur.take() {
                b.lines.1 = i;
                b.parent = match b.btype.as_str() {
                    "FLOOR" => {
                        floor = b.name.clone();
                        None
                    }
                    "SPACE" => {
                        space = b.name.clone();
                        Some(floor.clone())
                    }
                    "EXTERIOR-WALL" | "INTERIOR-WALL" | "ROOF" | "UNDERGROUND-WALL" | "UNDERGROUND-FLOOR" => {
                        wall = b.name.clone();
                        Some(space.clone())
                    }
                    "CONSTRUCTION" | "WINDOW" | "DOOR" => Some(wall.clone()),
                    _ => None,
                };
                out.push(b);
            }
        }
        i += 1;
    }
    out
}

/// (start, end) byte offsets of the BDL text inside a .ctehexml, CDATA markers excluded
pub fn bdl_span(xml: &str) -> Option<(usize, usize)> {
    let open = xml.find("<EntradaGraficaLIDER>")? + "<EntradaGraficaLIDER>".len();
    let close = xml[open..].find("</EntradaGraficaLIDER>")? + open;
    let (mut a, mut b) = (open, close);
    if let Some(p) = xml[a..b].find("<![CDATA[") {
        a += p + 9;
    }
    if let Some(p) = xml[a..b].rfind("]]>") {
        b = a + p;
    }
    Some((a, b))
}
