//! The harness's own walk over every reference of a model (shares no code with bemodel::check).

use std::collections::{BTreeMap, HashSet};

use bemodel::{MatProps, Model, Uuid};

#[derive(Clone, Debug, PartialEq, Eq, PartialOrd, Ord, Hash)]
pub enum Link {
    WallSpace,
    WallCons,
    WallNext,
    WinWall,
    WinCons,
    LayerMat,
    WinconsGlass,
    WinconsFrame,
    SpaceLoads,
    SpaceThermostat,
    LoadsSchedule,
    ThermostatSchedule,
    YearWeek,
    WeekDay,
    OverrideWall,
    OverrideWindow,
}

#[derive(Clone, Debug)]
pub struct Broken {
    pub link: Link,
    /// id of the referring element
    pub owner: Uuid,
    pub target: Uuid,
}

pub fn broken_links(m: &Model) -> Vec<Broken> {
    let spaces: HashSet<Uuid> = m.spaces.iter().map(|s| s.id).collect();
    let walls: HashSet<Uuid> = m.walls.iter().map(|s| s.id).collect();
    let windows: HashSet<Uuid> = m.windows.iter().map(|s| s.id).collect();
    let wallcons: HashSet<Uuid> = m.cons.wallcons.iter().map(|s| s.id).collect();
    let wincons: HashSet<Uuid> = m.cons.wincons.iter().map(|s| s.id).collect();
    let mats: HashSet<Uuid> = m.cons.materials.iter().map(|s| s.id).collect();
    let glasses: HashSet<Uuid> = m.cons.glasses.iter().map(|s| s.id).collect();
    let frames: HashSet<Uuid> = m.cons.frames.iter().map(|s| s.id).collect();
    let loads: HashSet<Uuid> = m.loads.iter().map(|s| s.id).collect();
    let therm: HashSet<Uuid> = m.thermostats.iter().map(|s| s.id).collect();
    let years: HashSet<Uuid> = m.schedules.year.iter().map(|s| s.id).collect();
    let weeks: HashSet<Uuid> = m.schedules.week.iter().map(|s| s.id).collect();
    let days: HashSet<Uuid> = m.schedules.day.iter().map(|s| s.id).collect();
    let mut out = vec![];
    let mut chk = |ok: bool, link: Link, owner: Uuid, target: Uuid| {
        if !ok {
            out.push(Broken { link, owner, target });
        }
    };
    for w in &m.walls {
        chk(spaces.contains(&w.space), Link::WallSpace, w.id, w.space);
        chk(wallcons.contains(&w.cons), Link::WallCons, w.id, w.cons);
        if let Some(n) = w.next_to {
            chk(spaces.contains(&n), Link::WallNext, w.id, n);
        }
    }
    for w in &m.windows {
        chk(walls.contains(&w.wall), Link::WinWall, w.id, w.wall);
        chk(wincons.contains(&w.cons), Link::WinCons, w.id, w.cons);
    }
    for c in &m.cons.wallcons {
        for l in &c.layers {
            chk(mats.contains(&l.material), Link::LayerMat, c.id, l.material);
        }
    }
    for c in &m.cons.wincons {
        chk(glasses.contains(&c.glass), Link::WinconsGlass, c.id, c.glass);
        chk(frames.contains(&c.frame), Link::WinconsFrame, c.id, c.frame);
    }
    for s in &m.spaces {
        if let Some(l) = s.loads {
            chk(loads.contains(&l), Link::SpaceLoads, s.id, l);
        }
        if let Some(l) = s.thermostat {
            chk(therm.contains(&l), Link::SpaceThermostat, s.id, l);
        }
    }
    for l in &m.loads {
        for s in [l.people_schedule, l.equipment_schedule, l.lighting_schedule].into_iter().flatten() {
            chk(years.contains(&s), Link::LoadsSchedule, l.id, s);
        }
    }
    for t in &m.thermostats {
        for s in [t.temp_max, t.temp_min].into_iter().flatten() {
            chk(years.contains(&s), Link::ThermostatSchedule, t.id, s);
        }
    }
    for y in &m.schedules.year {
        for (w, _) in &y.values {
            chk(weeks.contains(w), Link::YearWeek, y.id, *w);
        }
    }
    for y in &m.schedules.week {
        for (d, _) in &y.values {
            chk(days.contains(d), Link::WeekDay, y.id, *d);
        }
    }
    for k in m.overrides.walls.keys() {
        chk(walls.contains(k), Link::OverrideWall, *k, *k);
    }
    for k in m.overrides.windows.keys() {
        chk(windows.contains(k), Link::OverrideWindow, *k, *k);
    }
    out
}

/// (collection, id) of ids that appear more than once in a collection, and nil ids
pub fn id_problems(m: &Model) -> Vec<(String, Uuid)> {
    let mut out = vec![];
    let mut scan = |name: &str, ids: Vec<Uuid>| {
        let mut seen: BTreeMap<Uuid, u32> = BTreeMap::new();
        for id in ids {
            *seen.entry(id).or_insert(0) += 1;
        }
        for (id, n) in seen {
            if n > 1 {
                out.push((format!("duplicate:{}", name), id));
            }
            if id.is_nil() {
                out.push((format!("nil:{}", name), id));
            }
        }
    };
    scan("spaces", m.spaces.iter().map(|s| s.id).collect());
    scan("walls", m.walls.iter().map(|s| s.id).collect());
    scan("windows", m.windows.iter().map(|s| s.id).collect());
    scan("thermal_bridges", m.thermal_bridges.iter().map(|s| s.id).collect());
    scan("shades", m.shades.iter().map(|s| s.id).collect());
    scan("wallcons", m.cons.wallcons.iter().map(|s| s.id).collect());
    scan("wincons", m.cons.wincons.iter().map(|s| s.id).collect());
    scan("materials", m.cons.materials.iter().map(|s| s.id).collect());
    scan("glasses", m.cons.glasses.iter().map(|s| s.id).collect());
    scan("frames", m.cons.frames.iter().map(|s| s.id).collect());
    scan("loads", m.loads.iter().map(|s| s.id).collect());
    scan("thermostats", m.thermostats.iter().map(|s| s.id).collect());
    scan("schedules.year", m.schedules.year.iter().map(|s| s.id).collect());
    scan("schedules.week", m.schedules.week.iter().map(|s| s.id).collect());
    scan("schedules.day", m.schedules.day.iter().map(|s| s.id).collect());
    out
}

/// referentially closed: every reference resolves and ids are unique (override keys excluded)
pub fn is_closed(m: &Model) -> bool {
    id_problems(m).is_empty() && broken_links(m).iter().all(|b| matches!(b.link, Link::OverrideWall | Link::OverrideWindow))
}

fn fin(v: f32) -> bool {
    v.is_finite()
}

/// "positive sizes and non-negative physical data" (input side of C14's finiteness clause).
/// Returns the first reason for which the model is NOT sane.
pub fn insane_reason(m: &Model) -> Option<String> {
    for s in &m.spaces {
        if !(fin(s.height) && s.height > 0.01 && s.height < 1e4) {
            return Some("space height".into());
        }
        if !(fin(s.multiplier) && s.multiplier >= 1.0 && s.multiplier < 1e4) {
            return Some("space multiplier".into());
        }
        if !(fin(s.z) && s.z.abs() < 1e4) {
            return Some("space z".into());
        }
        if let Some(n) = s.n_v {
            if !(fin(n) && n >= 0.0 && n < 1e4) {
                return Some("space n_v".into());
            }
        }
        if let Some(n) = s.illuminance {
            if !(fin(n) && n >= 0.0 && n < 1e7) {
                return Some("space illuminance".into());
            }
        }
    }
    for w in &m.walls {
        if w.geometry.polygon.len() < 3 {
            return Some("wall polygon with fewer than 3 vertices".into());
        }
        let a = crate::oracle::mref::poly_area(&w.geometry.polygon);
        if !(a > 0.01 && a < 1e7) {
            return Some("wall polygon area".into());
        }
        if !w.geometry.polygon.iter().all(|p| fin(p.x) && fin(p.y) && p.x.abs() < 1e5 && p.y.abs() < 1e5) {
            return Some("wall polygon coordinates".into());
        }
        if !(fin(w.geometry.tilt) && fin(w.geometry.azimuth) && w.geometry.tilt.abs() <= 720.0 && w.geometry.azimuth.abs() <= 720.0) {
            return Some("wall angles".into());
        }
        if let Some(p) = w.geometry.position {
            if !(fin(p.x) && fin(p.y) && fin(p.z) && p.coords.iter().all(|c| c.abs() < 1e5)) {
                return Some("wall position".into());
            }
        }
    }
    for s in &m.shades {
        if s.geometry.polygon.len() < 3 || !(crate::oracle::mref::poly_area(&s.geometry.polygon) > 0.001) {
            return Some("shade polygon".into());
        }
        if !s.geometry.polygon.iter().all(|p| fin(p.x) && fin(p.y) && p.x.abs() < 1e5 && p.y.abs() < 1e5) || !(fin(s.geometry.tilt) && fin(s.geometry.azimuth)) {
            return Some("shade geometry".into());
        }
        if let Some(p) = s.geometry.position {
            if !(fin(p.x) && fin(p.y) && fin(p.z) && p.coords.iter().all(|c| c.abs() < 1e5)) {
                return Some("shade position".into());
            }
        }
    }
    for w in &m.windows {
        let g = &w.geometry;
        if !(fin(g.width) && fin(g.height) && g.width > 0.01 && g.height > 0.01 && g.width < 1e4 && g.height < 1e4) {
            return Some("window size".into());
        }
        if !(fin(g.setback) && g.setback >= 0.0 && g.setback < 100.0) {
            return Some("window setback".into());
        }
        if let Some(p) = g.position {
            if !(fin(p.x) && fin(p.y) && p.x.abs() < 1e5 && p.y.abs() < 1e5) {
                return Some("window position".into());
            }
        }
    }
    // a wall must be larger than its windows
    for w in &m.walls {
        let a = crate::oracle::mref::poly_area(&w.geometry.polygon);
        let wa: f64 = m.windows.iter().filter(|x| x.wall == w.id).map(|x| x.geometry.width as f64 * x.geometry.height as f64).sum();
        if wa > a {
            return Some("windows larger than their wall".into());
        }
    }
    for t in &m.thermal_bridges {
        if !(fin(t.l) && fin(t.psi) && t.l >= 0.0 && t.psi >= 0.0 && t.l < 1e6 && t.psi < 1e3) {
            return Some("thermal bridge".into());
        }
    }
    for c in &m.cons.wallcons {
        for l in &c.layers {
            if !(fin(l.e) && l.e > 0.0 && l.e < 100.0) {
                return Some("layer thickness".into());
            }
        }
    }
    for mat in &m.cons.materials {
        match mat.properties {
            MatProps::Detailed { conductivity, density, specific_heat, .. } => {
                if !(fin(conductivity) && conductivity > 1e-4 && conductivity < 1e4 && fin(density) && fin(specific_heat)) {
                    return Some("material conductivity".into());
                }
            }
            MatProps::Resistance { resistance, .. } => {
                if !(fin(resistance) && resistance >= 0.0 && resistance < 1e4) {
                    return Some("material resistance".into());
                }
            }
        }
    }
    for g in &m.cons.glasses {
        if !(fin(g.u_value) && g.u_value > 0.0 && g.u_value < 100.0 && fin(g.g_gln) && (0.0..=1.0).contains(&g.g_gln)) {
            return Some("glass".into());
        }
    }
    for g in &m.cons.frames {
        if !(fin(g.u_value) && g.u_value > 0.0 && g.u_value < 100.0) {
            return Some("frame".into());
        }
    }
    for c in &m.cons.wincons {
        if !(fin(c.f_f) && (0.0..=1.0).contains(&c.f_f) && fin(c.delta_u) && c.delta_u >= 0.0 && c.delta_u <= 1000.0 && fin(c.c_100) && c.c_100 >= 0.0 && c.c_100 < 1e5) {
            return Some("wincons".into());
        }
        if let Some(g) = c.g_glshwi {
            if !(fin(g) && (0.0..=1.0).contains(&g)) {
                return Some("wincons g_glshwi".into());
            }
        }
    }
    let me = &m.meta;
    if let Some(v) = me.global_ventilation_l_s {
        if !(fin(v) && v >= 0.0 && v < 1e7) {
            return Some("global ventilation".into());
        }
    }
    if let Some(v) = me.n50_test_ach {
        if !(fin(v) && v >= 0.0 && v < 1e4) {
            return Some("n50 test".into());
        }
    }
    if !(fin(me.d_perim_insulation) && me.d_perim_insulation >= 0.0 && me.d_perim_insulation < 100.0 && fin(me.rn_perim_insulation) && me.rn_perim_insulation >= 0.0 && me.rn_perim_insulation < 100.0) {
        return Some("perimeter insulation".into());
    }
    for l in &m.loads {
        for v in [l.area_per_person, l.people_sensible, l.people_latent, l.equipment, l.lighting] {
            if !(fin(v) && v >= 0.0 && v < 1e6) {
                return Some("loads".into());
            }
        }
    }
    for d in &m.schedules.day {
        if d.values.len() != 24 || !d.values.iter().all(|v| fin(*v) && v.abs() < 1e6) {
            return Some("daily schedule without 24 finite values".into());
        }
    }
    for w in &m.schedules.week {
        if w.values.iter().map(|v| v.1 as u64).sum::<u64>() != 7 {
            return Some("weekly schedule not covering 7 days".into());
        }
    }
    for y in &m.schedules.year {
        if y.values.iter().map(|v| v.1 as u64).sum::<u64>() != 365 {
            return Some("yearly schedule not covering 365 days".into());
        }
    }
    for (_, o) in &m.overrides.walls {
        if let Some(u) = o.u_value {
            if !(fin(u) && u >= 0.0 && u < 1e3) {
                return Some("override".into());
            }
        }
    }
    for (_, o) in &m.overrides.windows {
        for u in [o.u_value, o.f_shobst].into_iter().flatten() {
            if !(fin(u) && u >= 0.0 && u < 1e3) {
                return Some("override".into());
            }
        }
    }
    None
}
