//! Independent f64 reference model over a `bemodel::Model` value. Reads fields only; calls none
//! of the library's computations. Written from the property statements and the formulas of
//! EN ISO 6946 / 13370 / 13789 and DB-HE as documented in the code base.

use std::collections::{BTreeMap, HashMap};
use std::f64::consts::PI;

use bemodel::{BoundaryType, MatProps, Model, SpaceType, Uuid, Wall, Window};

pub const RSE: f64 = 0.04;
pub const LAMBDA_GND: f64 = 2.0;
pub const LAMBDA_INS: f64 = 0.035;
pub const W_WALL: f64 = 0.3;

#[derive(Clone, Copy, Debug, PartialEq, Eq, Hash, PartialOrd, Ord)]
pub enum TiltC {
    Top,
    Side,
    Bottom,
}
impl TiltC {
    pub fn name(self) -> &'static str {
        match self {
            TiltC::Top => "TOP",
            TiltC::Side => "SIDE",
            TiltC::Bottom => "BOTTOM",
        }
    }
    pub fn rsi(self) -> f64 {
        match self {
            TiltC::Top => 0.10,
            TiltC::Side => 0.13,
            TiltC::Bottom => 0.17,
        }
    }
}

/// residue of an f32 angle modulo 360 in [0,360), exact in f64
pub fn mod360(a: f32) -> f64 {
    let r = (a as f64) % 360.0;
    if r < 0.0 {
        r + 360.0
    } else {
        r
    }
}

/// floor (tilt <= 60 or >= 300 is a roof: normal up), wall, floor classes by tilt
pub fn tilt_class(t: f32) -> TiltC {
    let r = mod360(t);
    if r <= 60.0 {
        TiltC::Top
    } else if r < 120.0 {
        TiltC::Side
    } else if r < 240.0 {
        TiltC::Bottom
    } else if r < 300.0 {
        TiltC::Side
    } else {
        TiltC::Top
    }
}

/// distance (degrees) of the tilt residue to the nearest class boundary
pub fn tilt_boundary_distance(t: f32) -> f64 {
    let r = mod360(t);
    [60.0, 120.0, 240.0, 300.0].iter().map(|b: &f64| (r - b).abs()).fold(f64::MAX, f64::min)
}

/// compass sector of an azimuth measured from south, east positive
pub fn sector(az: f32) -> &'static str {
    let r = mod360(az);
    if r < 18.0 {
        "S"
    } else if r < 69.0 {
        "SE"
    } else if r < 120.0 {
        "E"
    } else if r < 157.5 {
        "NE"
    } else if r < 202.5 {
        "N"
    } else if r < 240.0 {
        "NW"
    } else if r < 291.0 {
        "W"
    } else if r < 342.0 {
        "SW"
    } else {
        "S"
    }
}
pub fn sector_boundary_distance(az: f32) -> f64 {
    let r = mod360(az);
    [18.0, 69.0, 120.0, 157.5, 202.5, 240.0, 291.0, 342.0].iter().map(|b: &f64| (r - b).abs()).fold(f64::MAX, f64::min)
}

pub fn r2(v: f64) -> f64 {
    (v * 100.0).round() / 100.0
}
pub fn r3(v: f64) -> f64 {
    (v * 1000.0).round() / 1000.0
}

pub fn poly_area(p: &[bemodel::Point2]) -> f64 {
    let n = p.len();
    if n < 2 {
        return 0.0;
    }
    let mut s = 0.0f64;
    for i in 0..n {
        let (a, b) = (&p[i], &p[(i + 1) % n]);
        s += a.x as f64 * b.y as f64 - a.y as f64 * b.x as f64;
    }
    (0.5 * s).abs()
}
pub fn poly_perimeter(p: &[bemodel::Point2]) -> f64 {
    let n = p.len();
    if n < 2 {
        return 0.0;
    }
    (0..n)
        .map(|i| {
            let (a, b) = (&p[i], &p[(i + 1) % n]);
            ((a.x as f64 - b.x as f64).powi(2) + (a.y as f64 - b.y as f64).powi(2)).sqrt()
        })
        .sum()
}

pub struct MRef<'a> {
    pub m: &'a Model,
    pub spaces: HashMap<Uuid, usize>,
    pub walls: HashMap<Uuid, usize>,
    pub wallcons: HashMap<Uuid, usize>,
    pub wincons: HashMap<Uuid, usize>,
    pub mats: HashMap<Uuid, usize>,
    pub glasses: HashMap<Uuid, usize>,
    pub frames: HashMap<Uuid, usize>,
}

/// first-match maps (the library resolves an id to the first element carrying it)
fn first_map<T>(xs: &[T], id: impl Fn(&T) -> Uuid) -> HashMap<Uuid, usize> {
    let mut m = HashMap::new();
    for (i, x) in xs.iter().enumerate() {
        m.entry(id(x)).or_insert(i);
    }
    m
}

#[derive(Clone, Copy, Debug)]
pub struct Pert {
    /// ±1 → ±half a unit of the documented rounding of: U_w / U_e (2 dec), P (2 dec), B' (2 dec), psi (3 dec)
    pub uw: f64,
    pub p: f64,
    pub b: f64,
    pub psi: f64,
}
impl Pert {
    pub const ZERO: Pert = Pert { uw: 0.0, p: 0.0, b: 0.0, psi: 0.0 };
}

#[derive(Clone, Debug, PartialEq)]
pub enum URef {
    /// no U-value can be defined (construction, material or space missing)
    None,
    /// the statement leaves the value open: any standard-consistent value or none
    Unspecified(&'static str),
    /// reference interval and the formula branch taken
    Interval(f64, f64, &'static str),
}

impl<'a> MRef<'a> {
    pub fn new(m: &'a Model) -> Self {
        MRef {
            m,
            spaces: first_map(&m.spaces, |s| s.id),
            walls: first_map(&m.walls, |s| s.id),
            wallcons: first_map(&m.cons.wallcons, |s| s.id),
            wincons: first_map(&m.cons.wincons, |s| s.id),
            mats: first_map(&m.cons.materials, |s| s.id),
            glasses: first_map(&m.cons.glasses, |s| s.id),
            frames: first_map(&m.cons.frames, |s| s.id),
        }
    }
    pub fn space(&self, id: Uuid) -> Option<&'a bemodel::Space> {
        self.spaces.get(&id).map(|i| &self.m.spaces[*i])
    }
    pub fn wall(&self, id: Uuid) -> Option<&'a Wall> {
        self.walls.get(&id).map(|i| &self.m.walls[*i])
    }
    pub fn mult(&self, space: Uuid) -> f64 {
        self.space(space).map_or(1.0, |s| s.multiplier as f64)
    }
    pub fn inside(&self, space: Uuid) -> bool {
        self.space(space).map_or(false, |s| s.inside_tenv)
    }

    // ---- constructions -------------------------------------------------------------------
    /// Σ e/λ or R; None when the construction or a material is missing or has no conductivity
    pub fn resistance(&self, cons: Uuid) -> Option<f64> {
        let c = &self.m.cons.wallcons[*self.wallcons.get(&cons)?];
        let mut tot = 0.0;
        for l in &c.layers {
            let mat = &self.m.cons.materials[*self.mats.get(&l.material)?];
            match mat.properties {
                MatProps::Detailed { conductivity, .. } => {
                    if conductivity > 0.0 {
                        tot += l.e as f64 / conductivity as f64
                    } else {
                        return None;
                    }
                }
                MatProps::Resistance { resistance, .. } => tot += resistance as f64,
            }
        }
        Some(tot)
    }
    pub fn thickness(&self, cons: Uuid) -> f64 {
        match self.wallcons.get(&cons) {
            None => 0.0,
            Some(i) => r3(self.m.cons.wallcons[*i].layers.iter().map(|l| l.e as f64).sum()),
        }
    }
    pub fn win_u(&self, w: &Window) -> Option<f64> {
        let c = &self.m.cons.wincons[*self.wincons.get(&w.cons)?];
        let g = &self.m.cons.glasses[*self.glasses.get(&c.glass)?];
        let f = &self.m.cons.frames[*self.frames.get(&c.frame)?];
        Some((1.0 + c.delta_u as f64 / 100.0) * (f.u_value as f64 * c.f_f as f64 + g.u_value as f64 * (1.0 - c.f_f as f64)))
    }

    // ---- geometry aggregates -------------------------------------------------------------
    pub fn wall_area(&self, w: &Wall) -> f64 {
        poly_area(&w.geometry.polygon)
    }
    pub fn win_area(&self, w: &Window) -> f64 {
        w.geometry.width as f64 * w.geometry.height as f64
    }
    pub fn windows_of(&self, wall: Uuid) -> impl Iterator<Item = &'a Window> {
        self.m.windows.iter().filter(move |w| w.wall == wall)
    }
    pub fn wall_net(&self, w: &Wall) -> f64 {
        r2(self.wall_area(w) - self.windows_of(w.id).map(|x| self.win_area(x)).sum::<f64>())
    }
    /// floor area of a space: its own elements of the floor class
    pub fn space_area(&self, sid: Uuid) -> f64 {
        self.m.walls.iter().filter(|w| w.space == sid && tilt_class(w.geometry.tilt) == TiltC::Bottom).map(|w| self.wall_area(w)).sum()
    }
    /// net height: gross height minus the thickness of the first ceiling found
    pub fn height_net(&self, sid: Uuid) -> f64 {
        let sp = match self.space(sid) {
            Some(s) => s,
            None => return 0.0,
        };
        for w in &self.m.walls {
            let t = tilt_class(w.geometry.tilt);
            if (t == TiltC::Top && w.space == sid) || (t == TiltC::Bottom && w.next_to == Some(sid)) {
                return sp.height as f64 - self.thickness(w.cons);
            }
        }
        sp.height as f64
    }
    pub fn space_walls(&self, sid: Uuid) -> impl Iterator<Item = &'a Wall> {
        self.m.walls.iter().filter(move |w| w.space == sid || w.next_to == Some(sid))
    }

    // ---- envelope and globals ------------------------------------------------------------
    /// an element belongs to the envelope exactly when it bounds an inside space towards outside
    /// air, ground or an adiabatic boundary, or separates an inside space from an outside one
    pub fn is_tenv(&self, w: &Wall) -> bool {
        let a = self.inside(w.space);
        match w.bounds {
            BoundaryType::INTERIOR => {
                let b = w.next_to.map_or(false, |n| self.inside(n));
                a != b
            }
            _ => a,
        }
    }
    pub fn habitable(&self, s: &bemodel::Space) -> bool {
        s.kind != SpaceType::UNINHABITED
    }
    /// spaces as the library's reporting sees them: one entry per distinct id (the last one wins in a map)
    fn distinct_spaces(&self) -> Vec<&'a bemodel::Space> {
        let mut by: BTreeMap<Uuid, &bemodel::Space> = BTreeMap::new();
        for s in &self.m.spaces {
            by.insert(s.id, s);
        }
        by.into_values().collect()
    }
    pub fn a_ref(&self) -> f64 {
        self.distinct_spaces().iter().filter(|s| s.inside_tenv && self.habitable(s)).map(|s| self.space_area(s.id) * s.multiplier as f64).sum()
    }
    pub fn vol_gross(&self) -> f64 {
        self.distinct_spaces().iter().filter(|s| s.inside_tenv).map(|s| self.space_area(s.id) * s.height as f64 * s.multiplier as f64).sum()
    }
    pub fn vol_net(&self) -> f64 {
        self.distinct_spaces().iter().filter(|s| s.inside_tenv).map(|s| self.space_area(s.id) * self.height_net(s.id) * s.multiplier as f64).sum()
    }
    pub fn vol_inh_net(&self) -> f64 {
        self.m.spaces.iter().filter(|s| s.inside_tenv && self.habitable(s)).map(|s| self.space_area(s.id) * self.height_net(s.id) * s.multiplier as f64).sum()
    }
    pub fn exposed_area(&self) -> f64 {
        self.m
            .walls
            .iter()
            .filter(|w| self.is_tenv(w) && matches!(w.bounds, BoundaryType::EXTERIOR | BoundaryType::GROUND))
            .map(|w| self.wall_area(w) * self.mult(w.space))
            .sum()
    }
    /// building ventilation rate 3.6 q / V_inh,net [1/h]; None = no global ventilation defined
    pub fn global_vent(&self) -> Option<f64> {
        let q = self.m.meta.global_ventilation_l_s? as f64;
        let v = r2(self.vol_inh_net());
        if v > 0.0 {
            Some(3.6 * q / v)
        } else {
            Some(f64::INFINITY)
        }
    }

    // ---- U-values --------------------------------------------------------------------------
    fn u_ext(&self, w: &Wall) -> Option<f64> {
        let r = self.resistance(w.cons)?;
        Some(1.0 / (r + tilt_class(w.geometry.tilt).rsi() + RSE))
    }
    /// characteristic dimension B' of the slab of a space (exposed-perimeter rule of the code base)
    pub fn char_dim(&self, sid: Uuid, p: &Pert) -> Option<f64> {
        let sp = self.space(sid)?;
        let floor = self
            .space_walls(sid)
            .find(|w| w.space == sid && tilt_class(w.geometry.tilt) == TiltC::Bottom && w.bounds == BoundaryType::GROUND)?;
        let a = self.wall_area(floor);
        if a < 0.001 {
            return Some(0.0);
        }
        let (mut tot, mut ext) = (0.0, 0.0);
        for w in self.space_walls(sid) {
            if tilt_class(w.geometry.tilt) != TiltC::Side {
                continue;
            }
            let ar = self.wall_area(w);
            tot += ar;
            match w.bounds {
                BoundaryType::EXTERIOR | BoundaryType::GROUND => ext += ar,
                BoundaryType::INTERIOR => {
                    if let Some(nx) = w.next_to.and_then(|n| self.space(n)) {
                        if sp.kind == SpaceType::CONDITIONED && nx.kind != SpaceType::CONDITIONED {
                            ext += ar;
                        }
                    }
                }
                BoundaryType::ADIABATIC => {}
            }
        }
        let per = if tot < 0.001 { 0.0 } else { poly_perimeter(&floor.geometry.polygon) * ext / tot + p.p * 0.005 };
        let per = per.max(0.01);
        Some(a / (0.5 * per) + p.b * 0.005)
    }
    /// equivalent thickness d_t, area weighted over the ground slabs of the space
    pub fn d_t(&self, sid: Uuid) -> Option<f64> {
        let (mut e, mut a) = (0.0, 0.0);
        let mut any = false;
        for w in self.space_walls(sid) {
            if tilt_class(w.geometry.tilt) == TiltC::Bottom && w.bounds == BoundaryType::GROUND {
                any = true;
                let ar = self.wall_area(w);
                a += ar;
                let r = self.resistance(w.cons).unwrap_or(0.0);
                e += ar * (W_WALL + LAMBDA_GND * (0.17 + r + RSE));
            }
        }
        if !any {
            return None;
        }
        Some(e / a)
    }
    fn psi_perim(&self, dt: f64, p: &Pert) -> f64 {
        let d1 = self.m.meta.rn_perim_insulation as f64 * (LAMBDA_GND - LAMBDA_INS);
        let d = self.m.meta.d_perim_insulation as f64;
        -LAMBDA_GND / PI * ((1.0 + d / dt).ln() - (1.0 + d / (dt + d1)).ln()) + p.psi * 0.0005
    }

    /// One evaluation of the reference with the documented intermediates shifted by `p`
    fn u_once(&self, w: &Wall, p: &Pert) -> Result<(f64, &'static str), URef> {
        if !self.wallcons.contains_key(&w.cons) {
            return Err(URef::None);
        }
        let r = self.resistance(w.cons);
        let t = tilt_class(w.geometry.tilt);
        match w.bounds {
            BoundaryType::EXTERIOR | BoundaryType::ADIABATIC => {
                let r = r.ok_or(URef::None)?;
                let br = match (w.bounds, t) {
                    (BoundaryType::EXTERIOR, TiltC::Top) => "ext-roof",
                    (BoundaryType::EXTERIOR, TiltC::Side) => "ext-wall",
                    (BoundaryType::EXTERIOR, TiltC::Bottom) => "ext-floor",
                    (_, TiltC::Top) => "adiab-roof",
                    (_, TiltC::Side) => "adiab-wall",
                    (_, TiltC::Bottom) => "adiab-floor",
                };
                Ok((1.0 / (r + t.rsi() + RSE), br))
            }
            BoundaryType::GROUND => {
                let uw = self.u_ext(w).ok_or(URef::None)?;
                let sp = self.space(w.space).ok_or(URef::None)?;
                let dt = match self.d_t(w.space) {
                    Some(d) => d,
                    // ground element in a space that has no slab: not fixed by the statement
                    None => return Err(URef::Unspecified("ground element in a space without slab")),
                };
                let z = (-(sp.z as f64)).max(0.0);
                match t {
                    TiltC::Top => Ok((uw, "gnd-roof")),
                    TiltC::Bottom => {
                        let b = self.char_dim(w.space, p).unwrap_or(0.0);
                        if b <= 0.0 {
                            return Err(URef::Unspecified("slab of null area"));
                        }
                        let ps = self.psi_perim(dt, p);
                        let bl = dt + 0.5 * z;
                        let (ubf, br) = if bl < b {
                            ((2.0 * LAMBDA_GND / (PI * b + bl)) * (1.0 + PI * b / bl).ln(), "gnd-slab-eq11")
                        } else {
                            (LAMBDA_GND / (0.457 * b + bl), "gnd-slab-eq12")
                        };
                        Ok((ubf + 2.0 * ps / b, br))
                    }
                    TiltC::Side => {
                        let uw_r = uw + p.uw * 0.005;
                        if z < 0.01 {
                            return Ok((uw, "gnd-wall-unburied"));
                        }
                        let hn = self.height_net(w.space);
                        let dw = LAMBDA_GND / uw_r;
                        let dtt = dw.min(dt);
                        let ubw = (2.0 * LAMBDA_GND / (PI * z)) * (1.0 + 0.5 * dtt / (dtt + z)) * (z / dw + 1.0).ln() + p.b * 0.005;
                        let h = if hn > z { hn - z } else { 0.0 };
                        if h.abs() < 1e-7 {
                            Ok((ubw, "gnd-wall-full"))
                        } else {
                            Ok(((z * ubw + h * uw_r) / hn, "gnd-wall-partial"))
                        }
                    }
                }
            }
            BoundaryType::INTERIOR => {
                let sp = self.space(w.space).ok_or(URef::None)?;
                let next = match w.next_to {
                    None => {
                        let r = r.ok_or(URef::None)?;
                        return Ok((1.0 / (r + 2.0 * t.rsi()), "int-no-neighbour"));
                    }
                    Some(n) => n,
                };
                let nx = self.space(next).ok_or(URef::None)?;
                let r = r.ok_or(URef::None)?;
                let tc = sp.kind == SpaceType::CONDITIONED;
                let nc = nx.kind == SpaceType::CONDITIONED;
                if tc == nc {
                    // Rsi pair for a partition between equally conditioned spaces is not fixed by the statement
                    return Err(URef::Unspecified("partition between equally conditioned spaces"));
                }
                let rs = if (tc && t == TiltC::Bottom) || (nc && t == TiltC::Top) {
                    0.17
                } else if (tc && t == TiltC::Top) || (nc && t == TiltC::Bottom) {
                    0.10
                } else {
                    0.13
                };
                let rf = r + 2.0 * rs;
                let us_id = if tc { next } else { w.space };
                let us = self.space(us_id).ok_or(URef::None)?;
                let mut ua = 0.0;
                for ww in self.space_walls(us_id) {
                    if !matches!(ww.bounds, BoundaryType::GROUND | BoundaryType::EXTERIOR) {
                        continue;
                    }
                    let ue = match self.u_once(ww, p) {
                        Ok((u, _)) => u,
                        Err(URef::Unspecified(_)) => return Err(URef::Unspecified("depends on an unspecified ground element")),
                        Err(_) => continue,
                    };
                    let mut wa = 0.0;
                    for win in self.windows_of(ww.id) {
                        if let Some(u) = self.win_u(win) {
                            wa += self.win_area(win) * r2(u);
                        }
                    }
                    ua += self.wall_net(ww) * (ue + p.uw * 0.005) + wa;
                }
                let vol = self.space_area(us_id) * self.height_net(us_id);
                let n = match us.n_v {
                    Some(n) => n as f64,
                    None => self.global_vent().unwrap_or(0.0),
                };
                if !(vol > 1e-9) || !n.is_finite() || n < 0.0 {
                    // no air volume or no defined ventilation rate: 0.33 n V is not defined
                    return Err(URef::Unspecified("unconditioned space without volume or with undefined ventilation rate"));
                }
                let h = ua + 0.33 * vol * n;
                let ai = self.wall_area(w);
                let br = match t {
                    TiltC::Top => "int-cond-uncond-ceiling",
                    TiltC::Side => "int-cond-uncond-wall",
                    TiltC::Bottom => "int-cond-uncond-floor",
                };
                if !(h > 0.0) {
                    return Ok((0.0, br));
                }
                if !h.is_finite() {
                    return Ok((1.0 / rf, br));
                }
                Ok((1.0 / (rf + ai / h), br))
            }
        }
    }

    /// Reference interval of the U-value of an opaque element
    pub fn u_ref(&self, w: &Wall) -> URef {
        let mut lo = f64::MAX;
        let mut hi = f64::MIN;
        let mut branch = "";
        let needs_pert = matches!(w.bounds, BoundaryType::GROUND | BoundaryType::INTERIOR);
        let steps: &[f64] = if needs_pert { &[-1.0, 0.0, 1.0] } else { &[0.0] };
        for &a in steps {
            for &b in steps {
                for &c in steps {
                    for &d in steps {
                        let p = Pert { uw: a, p: b, b: c, psi: d };
                        match self.u_once(w, &p) {
                            Ok((u, br)) => {
                                if !u.is_finite() {
                                    return URef::Unspecified("non-finite reference (degenerate sizes)");
                                }
                                lo = lo.min(u);
                                hi = hi.max(u);
                                if a == 0.0 && b == 0.0 && c == 0.0 && d == 0.0 {
                                    branch = br;
                                }
                            }
                            Err(e) => return e,
                        }
                    }
                }
            }
        }
        URef::Interval(lo, hi, branch)
    }

    /// U the library is expected to *use* downstream when it cannot compute one
    pub const U_DEFAULT: f64 = 5.7;

    // ---- schedules -----------------------------------------------------------------------
    /// expansion of a yearly schedule into daily-schedule ids (year starts on a Monday)
    pub fn year_days(&self, year: Uuid) -> Vec<Uuid> {
        let y = match self.m.schedules.year.iter().find(|y| y.id == year) {
            Some(y) => y,
            None => return vec![],
        };
        let mut out = vec![];
        let mut d = 0usize;
        for (wid, cnt) in &y.values {
            let days: Vec<Uuid> = match self.m.schedules.week.iter().find(|w| w.id == *wid) {
                Some(w) => w.values.iter().flat_map(|(id, c)| std::iter::repeat(*id).take(*c as usize)).collect(),
                None => vec![],
            };
            for k in 0..*cnt as usize {
                if !days.is_empty() {
                    // weekday slot of day d+k of the year; a weekly pattern shorter/longer than 7 is cycled
                    let start = d % 7;
                    out.push(days[(start + k) % days.len()]);
                }
            }
            d += *cnt as usize;
        }
        out
    }
    pub fn day_values(&self, day: Uuid) -> Option<&'a Vec<f32>> {
        self.m.schedules.day.iter().find(|d| d.id == day).map(|d| &d.values)
    }
    /// mean of a yearly schedule over its expanded days (None when it expands to nothing)
    pub fn year_mean(&self, year: Uuid) -> Option<f64> {
        let days = self.year_days(year);
        if days.is_empty() {
            return None;
        }
        let mut s = 0.0;
        for d in &days {
            s += match self.day_values(*d) {
                Some(v) if !v.is_empty() => v.iter().map(|x| *x as f64).sum::<f64>() / v.len() as f64,
                _ => 0.0,
            };
        }
        Some(s / days.len() as f64)
    }
}
