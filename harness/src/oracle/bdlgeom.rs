//! Expected global geometry of a HULC project, computed in f64 from the BDL text with the
//! DOE-2 nesting: P_building = O_space + Rz(-az_space) P_space ; P_global = Rz(-deviation) P_building,
//! floor Z added to the space Z, angles clockwise from north.

use std::collections::HashMap;

use crate::oracle::bdlread::RBlock;
use crate::oracle::geom::{add, cross, scale, sub, unit, V3};

#[derive(Clone, Debug)]
pub struct ExpElem {
    pub name: String,
    /// corner points in global coordinates
    pub pts: Vec<V3>,
    /// outward normal in global coordinates (None for shades)
    pub normal: Option<V3>,
    pub area: f64,
    pub kind: &'static str,
    /// largest distance of a corner from the rotation origins (lever arm for the angular rounding slack)
    pub lever: f64,
}

#[derive(Clone, Debug)]
pub struct ExpWindow {
    pub name: String,
    pub wall: String,
    pub pts: Vec<V3>,
    pub width: f64,
    pub height: f64,
    pub setback: f64,
}

pub struct Expected {
    pub walls: Vec<ExpElem>,
    pub windows: Vec<ExpWindow>,
    pub shades: Vec<ExpElem>,
    pub skipped: Vec<(String, &'static str)>,
    pub deviation: f64,
}

/// rotation by `deg` clockwise seen from above (BDL convention) about z
fn rot_cw(p: V3, deg: f64) -> V3 {
    let a = (-deg).to_radians();
    [p[0] * a.cos() - p[1] * a.sin(), p[0] * a.sin() + p[1] * a.cos(), p[2]]
}

fn poly_area3(pts: &[V3]) -> f64 {
    let mut s = [0.0; 3];
    for i in 0..pts.len() {
        let c = cross(pts[i], pts[(i + 1) % pts.len()]);
        s = add(s, c);
    }
    0.5 * (s[0] * s[0] + s[1] * s[1] + s[2] * s[2]).sqrt()
}

fn point_in_outline(p: (f64, f64), poly: &[(f64, f64)]) -> bool {
    let mut inside = false;
    let n = poly.len();
    for i in 0..n {
        let (a, b) = (poly[i], poly[(i + 1) % n]);
        if (a.1 > p.1) != (b.1 > p.1) {
            let x = a.0 + (p.1 - a.1) * (b.0 - a.0) / (b.1 - a.1);
            if x > p.0 {
                inside = !inside;
            }
        }
    }
    inside
}

/// local frame of a planar element given by BDL azimuth (clockwise from +Y) and tilt:
/// x to the right seen from outside, y "up" in the plane, n outward
fn bdl_frame(az: f64, tilt: f64) -> (V3, V3, V3) {
    let (a, t) = (az.to_radians(), tilt.to_radians());
    let n = [a.sin() * t.sin(), a.cos() * t.sin(), t.cos()];
    let x = [-a.cos(), a.sin(), 0.0];
    let y = cross(n, x);
    (x, y, n)
}

pub fn expected(blocks: &[RBlock]) -> Expected {
    let by_name_type = |t: &str| -> HashMap<String, &RBlock> { blocks.iter().filter(|b| b.btype == t).map(|b| (b.name.clone(), b)).collect() };
    let polygons = by_name_type("POLYGON");
    let floors = by_name_type("FLOOR");
    let spaces = by_name_type("SPACE");
    let deviation = blocks.iter().find(|b| b.btype == "BUILD-PARAMETERS").and_then(|b| b.num("AZIMUTH")).unwrap_or(0.0);
    let mut out = Expected { walls: vec![], windows: vec![], shades: vec![], skipped: vec![], deviation };

    for w in blocks.iter().filter(|b| matches!(b.btype.as_str(), "EXTERIOR-WALL" | "INTERIOR-WALL" | "ROOF" | "UNDERGROUND-WALL")) {
        let sp = match w.parent.as_ref().and_then(|p| spaces.get(p)) {
            Some(s) => *s,
            None => {
                out.skipped.push((w.name.clone(), "no parent space"));
                continue;
            }
        };
        let fl = match sp.parent.as_ref().and_then(|p| floors.get(p)) {
            Some(f) => *f,
            None => {
                out.skipped.push((w.name.clone(), "no floor"));
                continue;
            }
        };
        let outline: Vec<(f64, f64)> = match sp.text("POLYGON").and_then(|p| polygons.get(&p).map(|b| b.vertices())) {
            Some(v) if v.len() >= 3 && v.iter().all(|p| p.len() == 2) => v.iter().map(|p| (p[0], p[1])).collect(),
            _ => {
                out.skipped.push((w.name.clone(), "space outline not found"));
                continue;
            }
        };
        let h = fl.num("SPACE-HEIGHT").unwrap_or(0.0);
        let (sx, sy, sz) = (sp.num("X").unwrap_or(0.0), sp.num("Y").unwrap_or(0.0), sp.num("Z").unwrap_or(0.0) + fl.num("Z").unwrap_or(0.0));
        let saz = sp.num("AZIMUTH").unwrap_or(0.0);
        // space coordinates -> global
        let to_global = |p: V3| -> V3 { rot_cw(add(rot_cw(p, saz), [sx, sy, sz]), deviation) };
        let dir_global = |d: V3| -> V3 { rot_cw(rot_cw(d, saz), deviation) };
        let lever_of = |pts: &[V3]| -> f64 { pts.iter().map(|p| (p[0] * p[0] + p[1] * p[1]).sqrt()).fold(0.0, f64::max) + (sx * sx + sy * sy).sqrt() };
        let loc = w.text("LOCATION");
        let own_poly = w.text("POLYGON").and_then(|p| polygons.get(&p).map(|b| b.vertices()));
        let (wx, wy, wz) = (w.num("X").unwrap_or(0.0), w.num("Y").unwrap_or(0.0), w.num("Z").unwrap_or(0.0));
        let elem: Option<(Vec<V3>, V3, &'static str)> = match (loc.as_deref(), &own_poly) {
            (Some(l), None) if l.starts_with("SPACE-V") => {
                let n: usize = match l[7..].parse() {
                    Ok(n) if n >= 1 && n <= outline.len() => n,
                    _ => {
                        out.skipped.push((w.name.clone(), "vertex out of range"));
                        continue;
                    }
                };
                let (a, b) = (outline[n - 1], outline[n % outline.len()]);
                let e = (b.0 - a.0, b.1 - a.1);
                let len = (e.0 * e.0 + e.1 * e.1).sqrt();
                if len < 1e-6 {
                    out.skipped.push((w.name.clone(), "degenerate edge"));
                    continue;
                }
                // outward = the side that is outside the outline
                let mut nrm = (e.1 / len, -e.0 / len);
                let mid = ((a.0 + b.0) / 2.0, (a.1 + b.1) / 2.0);
                if point_in_outline((mid.0 + 1e-3 * nrm.0, mid.1 + 1e-3 * nrm.1), &outline) {
                    nrm = (-nrm.0, -nrm.1);
                }
                let (ox, oy, oz) = (wx, wy, wz);
                let pts = vec![[a.0 + ox, a.1 + oy, oz], [b.0 + ox, b.1 + oy, oz], [b.0 + ox, b.1 + oy, oz + h], [a.0 + ox, a.1 + oy, oz + h]];
                Some((pts, [nrm.0, nrm.1, 0.0], "space-vertex"))
            }
            (Some("TOP"), None) => Some((outline.iter().map(|p| [p.0 + wx, p.1 + wy, wz + h]).collect(), [0.0, 0.0, 1.0], "top-from-outline")),
            (Some("BOTTOM"), None) => Some((outline.iter().map(|p| [p.0 + wx, p.1 + wy, wz]).collect(), [0.0, 0.0, -1.0], "bottom-from-outline")),
            (l, Some(poly)) if (l.is_none() || l == Some("TOP")) && poly.len() >= 3 && poly.iter().all(|p| p.len() == 2) => {
                let az = w.num("AZIMUTH").unwrap_or(0.0);
                let tilt = w.num("TILT").unwrap_or(if w.btype == "ROOF" || l == Some("TOP") { 0.0 } else { 90.0 });
                let (x, y, n) = bdl_frame(az, tilt);
                let pts = poly.iter().map(|p| add([wx, wy, wz], add(scale(x, p[0]), scale(y, p[1])))).collect();
                Some((pts, n, "own-polygon"))
            }
            _ => None,
        };
        match elem {
            None => out.skipped.push((w.name.clone(), "location kind outside the oracle")),
            Some((pts, n, kind)) => {
                // windows on walls placed by their own polygon in canonical position (outline starts at the wall origin,
                // first edge along the wall's x axis): offsets are wall coordinates and may be negative where the outline
                // reaches left of / below its first vertex
                if kind == "own-polygon" {
                    if let Some(poly) = &own_poly {
                        let canonical = poly.len() >= 3 && poly[0][0].abs() < 1e-9 && poly[0][1].abs() < 1e-9 && poly[1][1].abs() < 1e-9 && poly[1][0] > 0.0;
                        if canonical {
                            let az = w.num("AZIMUTH").unwrap_or(0.0);
                            let tilt = w.num("TILT").unwrap_or(if w.btype == "ROOF" || loc.as_deref() == Some("TOP") { 0.0 } else { 90.0 });
                            let (ax, ay, an) = bdl_frame(az, tilt);
                            for win in blocks.iter().filter(|b| b.btype == "WINDOW" && b.parent.as_deref() == Some(w.name.as_str())) {
                                if let (Some(x), Some(y), Some(ww), Some(wh)) = (win.num("X"), win.num("Y"), win.num("WIDTH"), win.num("HEIGHT")) {
                                    let sb = win.num("SETBACK").unwrap_or(0.0);
                                    let c = |dx: f64, dy: f64| -> V3 { to_global(add(add(add([wx, wy, wz], scale(ax, dx)), scale(ay, dy)), scale(an, -sb))) };
                                    out.windows.push(ExpWindow { name: win.name.clone(), wall: w.name.clone(), pts: vec![c(x, y), c(x + ww, y), c(x + ww, y + wh), c(x, y + wh)], width: ww, height: wh, setback: sb });
                                }
                            }
                        }
                    }
                }
                let g: Vec<V3> = pts.iter().map(|p| to_global(*p)).collect();
                let lever = lever_of(&pts);
                out.walls.push(ExpElem { name: w.name.clone(), area: poly_area3(&pts), pts: g, normal: Some(unit(dir_global(n))), kind, lever });
                // windows on SPACE-Vn walls: rectangle in the wall plane, pushed back by the setback
                if kind == "space-vertex" {
                    let (p0, p1) = (pts[0], pts[1]);
                    let e = unit(sub(p1, p0));
                    for win in blocks.iter().filter(|b| b.btype == "WINDOW" && b.parent.as_deref() == Some(w.name.as_str())) {
                        if let (Some(x), Some(y), Some(ww), Some(wh)) = (win.num("X"), win.num("Y"), win.num("WIDTH"), win.num("HEIGHT")) {
                            let sb = win.num("SETBACK").unwrap_or(0.0);
                            let back = scale(n, -sb);
                            let c = |dx: f64, dz: f64| -> V3 { to_global(add(add(add(p0, scale(e, dx)), [0.0, 0.0, dz]), back)) };
                            out.windows.push(ExpWindow { name: win.name.clone(), wall: w.name.clone(), pts: vec![c(x, y), c(x + ww, y), c(x + ww, y + wh), c(x, y + wh)], width: ww, height: wh, setback: sb });
                        }
                    }
                }
            }
        }
    }
    for s in blocks.iter().filter(|b| b.btype == "BUILDING-SHADE") {
        if let (Some(x), Some(y), Some(z), Some(w), Some(h)) = (s.num("X"), s.num("Y"), s.num("Z"), s.num("WIDTH"), s.num("HEIGHT")) {
            if h.abs() < 1e-3 {
                continue; // shades of null area are dropped by design
            }
            let (fx, fy, _) = bdl_frame(s.num("AZIMUTH").unwrap_or(0.0), s.num("TILT").unwrap_or(90.0));
            let o = [x, y, z];
            let pts = vec![o, add(o, scale(fx, w)), add(add(o, scale(fx, w)), scale(fy, h)), add(o, scale(fy, h))];
            let lever = pts.iter().map(|p| (p[0] * p[0] + p[1] * p[1]).sqrt()).fold(0.0, f64::max);
            out.shades.push(ExpElem { name: s.name.clone(), area: w * h, pts: pts.iter().map(|p| rot_cw(*p, deviation)).collect(), normal: None, kind: "shade-rectangle", lever });
        } else {
            let v = s.vertices();
            if v.len() >= 3 && v.iter().all(|p| p.len() == 3) {
                let pts: Vec<V3> = v.iter().map(|p| [p[0], p[1], p[2]]).collect();
                let lever = pts.iter().map(|p| (p[0] * p[0] + p[1] * p[1]).sqrt()).fold(0.0, f64::max);
                out.shades.push(ExpElem { name: s.name.clone(), area: poly_area3(&pts), pts: pts.iter().map(|p| rot_cw(*p, deviation)).collect(), normal: None, kind: "shade-vertices", lever });
            }
        }
    }
    out
}
