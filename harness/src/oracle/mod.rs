pub mod links;
pub mod mref;
