pub mod geom;
pub mod links;
pub mod mref;
