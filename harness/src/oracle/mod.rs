pub mod bdlgeom;
pub mod bdlread;
pub mod geom;
pub mod links;
pub mod mref;
