//! Exact (f64) geometry: element frames, global corner points, ray / planar-polygon test,
//! reveal surfaces of set-back windows from first principles, obstruction reference.

use bemodel::{BoundaryType, Model, Uuid, WallGeom, Window};

pub type V3 = [f64; 3];

pub fn add(a: V3, b: V3) -> V3 {
    [a[0] + b[0], a[1] + b[1], a[2] + b[2]]
}
pub fn sub(a: V3, b: V3) -> V3 {
    [a[0] - b[0], a[1] - b[1], a[2] - b[2]]
}
pub fn scale(a: V3, s: f64) -> V3 {
    [a[0] * s, a[1] * s, a[2] * s]
}
pub fn dot(a: V3, b: V3) -> f64 {
    a[0] * b[0] + a[1] * b[1] + a[2] * b[2]
}
pub fn cross(a: V3, b: V3) -> V3 {
    [a[1] * b[2] - a[2] * b[1], a[2] * b[0] - a[0] * b[2], a[0] * b[1] - a[1] * b[0]]
}
pub fn norm(a: V3) -> f64 {
    dot(a, a).sqrt()
}
pub fn unit(a: V3) -> V3 {
    let n = norm(a);
    if n == 0.0 {
        a
    } else {
        scale(a, 1.0 / n)
    }
}
pub fn dist(a: V3, b: V3) -> f64 {
    norm(sub(a, b))
}

/// columns of Rz(az)·Rx(tilt): local x, y, z axes in global coordinates
pub fn axes(tilt_deg: f64, az_deg: f64) -> (V3, V3, V3) {
    let (t, a) = (tilt_deg.to_radians(), az_deg.to_radians());
    let (st, ct, sa, ca) = (t.sin(), t.cos(), a.sin(), a.cos());
    // Rx(t): x->x, y->(0,ct,st), z->(0,-st,ct); then Rz(a)
    let ex = [ca, sa, 0.0];
    let ey = [-sa * ct, ca * ct, st];
    let ez = [sa * st, -ca * st, ct];
    (ex, ey, ez)
}

pub struct Frame {
    pub o: V3,
    pub ex: V3,
    pub ey: V3,
    pub ez: V3,
}
impl Frame {
    pub fn of(g: &WallGeom) -> Option<Frame> {
        let p = g.position?;
        let (ex, ey, ez) = axes(g.tilt as f64, g.azimuth as f64);
        Some(Frame { o: [p.x as f64, p.y as f64, p.z as f64], ex, ey, ez })
    }
    pub fn at(&self, x: f64, y: f64, z: f64) -> V3 {
        add(self.o, add(scale(self.ex, x), add(scale(self.ey, y), scale(self.ez, z))))
    }
}

/// corner points of an element in global coordinates
pub fn global_points(g: &WallGeom) -> Option<Vec<V3>> {
    let f = Frame::of(g)?;
    Some(g.polygon.iter().map(|p| f.at(p.x as f64, p.y as f64, 0.0)).collect())
}

/// outward normal under the model's convention: Rz(az)·Rx(tilt)·(±z by polygon winding)
pub fn normal_of(g: &WallGeom) -> V3 {
    let (_, _, ez) = axes(g.tilt as f64, g.azimuth as f64);
    let p = &g.polygon;
    if p.len() >= 3 {
        let (v0, v1) = ((p[1].x - p[0].x, p[1].y - p[0].y), (p[2].x - p[0].x, p[2].y - p[0].y));
        if (v0.0 as f64) * (v1.1 as f64) < (v0.1 as f64) * (v1.0 as f64) {
            return scale(ez, -1.0);
        }
    }
    ez
}

#[derive(Clone, Copy, Debug, PartialEq)]
pub enum Hit {
    Yes,
    No,
    /// within the oracle's ambiguity band (1 mm of the outline, |t| < 1 mm, grazing incidence)
    Ambiguous,
}

/// Does the ray (origin, unit direction) cross the planar simple polygon in front of its origin?
/// Winding-number test in exact-enough f64.
pub fn ray_polygon(orig: V3, dir: V3, poly: &[V3]) -> Hit {
    let m = poly.len();
    if m < 3 {
        return Hit::No;
    }
    // plane normal from the first non-collinear triple
    let mut n: Option<V3> = None;
    for i in 0..m {
        let a = sub(poly[(i + 1) % m], poly[i]);
        let b = sub(poly[(i + 2) % m], poly[(i + 1) % m]);
        let c = cross(a, b);
        if norm(c) > 1e-9 {
            n = Some(unit(c));
            break;
        }
    }
    let n = match n {
        Some(n) => n,
        None => return Hit::No,
    };
    let den = dot(n, dir);
    if den.abs() < 1e-3 {
        // grazing: could only matter if the origin is very near the plane; call it ambiguous when it is near
        let d = dot(n, sub(poly[0], orig)).abs();
        return if d < 0.05 { Hit::Ambiguous } else { Hit::No };
    }
    let t = dot(n, sub(poly[0], orig)) / den;
    if t.abs() < 1e-3 {
        return Hit::Ambiguous;
    }
    if t < 0.0 {
        return Hit::No;
    }
    let p = add(orig, scale(dir, t));
    // 2-D basis in the plane
    let mut u = sub(poly[1], poly[0]);
    if norm(u) < 1e-12 {
        u = sub(poly[2], poly[0]);
    }
    let u = unit(u);
    let v = cross(n, u);
    let q: Vec<(f64, f64)> = poly.iter().map(|c| (dot(sub(*c, poly[0]), u), dot(sub(*c, poly[0]), v))).collect();
    let (x, y) = (dot(sub(p, poly[0]), u), dot(sub(p, poly[0]), v));
    let mut winding = 0i32;
    let mut mind = f64::MAX;
    for i in 0..m {
        let (x1, y1) = q[i];
        let (x2, y2) = q[(i + 1) % m];
        // winding number
        let is_left = (x2 - x1) * (y - y1) - (x - x1) * (y2 - y1);
        if y1 <= y {
            if y2 > y && is_left > 0.0 {
                winding += 1;
            }
        } else if y2 <= y && is_left < 0.0 {
            winding -= 1;
        }
        let (dx, dy) = (x2 - x1, y2 - y1);
        let l = dx * dx + dy * dy;
        let tt = if l == 0.0 { 0.0 } else { (((x - x1) * dx + (y - y1) * dy) / l).clamp(0.0, 1.0) };
        mind = mind.min(((x - (x1 + tt * dx)).powi(2) + (y - (y1 + tt * dy)).powi(2)).sqrt());
    }
    if mind < 1e-3 {
        return Hit::Ambiguous;
    }
    if winding != 0 {
        Hit::Yes
    } else {
        Hit::No
    }
}

/// the four reveal quads of a set-back window: wall plane <-> window plane along the four edges
pub fn reveal_quads(wallgeom: &WallGeom, win: &Window) -> Option<Vec<Vec<V3>>> {
    let g = &win.geometry;
    if (g.setback as f64).abs() < 0.01 {
        return Some(vec![]);
    }
    let pos = g.position?;
    let f = Frame::of(wallgeom)?;
    let (x, y, w, h, s) = (pos.x as f64, pos.y as f64, g.width as f64, g.height as f64, g.setback as f64);
    let p = |a: f64, b: f64, c: f64| f.at(a, b, c);
    Some(vec![
        vec![p(x, y + h, 0.0), p(x, y + h, -s), p(x + w, y + h, -s), p(x + w, y + h, 0.0)], // head
        vec![p(x, y, 0.0), p(x, y, -s), p(x, y + h, -s), p(x, y + h, 0.0)],                 // left jamb
        vec![p(x + w, y, 0.0), p(x + w, y, -s), p(x + w, y + h, -s), p(x + w, y + h, 0.0)], // right jamb
        vec![p(x, y, 0.0), p(x, y, -s), p(x + w, y, -s), p(x + w, y, 0.0)],                 // sill
    ])
}

/// largest corner distance between two polygons as point sets in cyclic order (either direction, any start)
pub fn cyclic_match(a: &[V3], b: &[V3]) -> f64 {
    let n = a.len();
    if n != b.len() || n == 0 {
        return f64::MAX;
    }
    let mut best = f64::MAX;
    for rev in [false, true] {
        for s in 0..n {
            let mut worst: f64 = 0.0;
            for i in 0..n {
                let j = if rev { (s + n - i) % n } else { (s + i) % n };
                worst = worst.max(dist(a[i], b[j]));
            }
            best = best.min(worst);
        }
    }
    best
}

pub struct Obstacle {
    pub id: Uuid,
    /// window whose reveal this is
    pub linked: Option<Uuid>,
    pub pts: Vec<V3>,
}

/// every exterior/adiabatic wall with geometry, every shade, every window's own reveal surfaces
pub fn obstacles(m: &Model) -> Vec<Obstacle> {
    let mut out = vec![];
    for w in &m.walls {
        if matches!(w.bounds, BoundaryType::EXTERIOR | BoundaryType::ADIABATIC) && !w.geometry.polygon.is_empty() {
            if let Some(pts) = global_points(&w.geometry) {
                out.push(Obstacle { id: w.id, linked: None, pts });
            }
        }
    }
    for s in &m.shades {
        if !s.geometry.polygon.is_empty() {
            if let Some(pts) = global_points(&s.geometry) {
                out.push(Obstacle { id: s.id, linked: None, pts });
            }
        }
    }
    for win in &m.windows {
        if let Some(w) = m.walls.iter().find(|w| w.id == win.wall) {
            if let Some(qs) = reveal_quads(&w.geometry, win) {
                for q in qs {
                    out.push(Obstacle { id: Uuid::nil(), linked: Some(win.id), pts: q });
                }
            }
        }
    }
    out
}

/// direction towards the sun: azimuth from south, east positive; altitude above the horizon
pub fn sun_vector(azimuth_deg: f64, altitude_deg: f64) -> V3 {
    let (a, h) = (azimuth_deg.to_radians(), altitude_deg.to_radians());
    [h.cos() * a.sin(), -h.cos() * a.cos(), h.sin()]
}

/// share of the sample points whose ray towards the sun meets no candidate obstacle;
/// returns (sunlit share, share of points with an ambiguous test)
pub fn sunlit_share(origins: &[V3], dir: V3, cands: &[&Obstacle]) -> (f64, f64) {
    if origins.is_empty() {
        return (1.0, 0.0);
    }
    let (mut blocked, mut amb) = (0usize, 0usize);
    for o in origins {
        let mut b = false;
        let mut a = false;
        for c in cands {
            match ray_polygon(*o, dir, &c.pts) {
                Hit::Yes => {
                    b = true;
                    break;
                }
                Hit::Ambiguous => a = true,
                Hit::No => {}
            }
        }
        if b {
            blocked += 1;
        } else if a {
            amb += 1;
        }
    }
    (1.0 - blocked as f64 / origins.len() as f64, amb as f64 / origins.len() as f64)
}
