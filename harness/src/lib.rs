//! cteverif — runtime monitors for the properties C01..C20 of pachi/cteenergymodel.
//! See /verif/DESIGN.md.
#![allow(clippy::all)]

pub mod convert;
pub mod core;
pub mod corpus;
pub mod fdcap;
pub mod gen;
pub mod oracle;
pub mod panicx;
pub mod props;
pub mod rng;

/// True when one of the three process-wide climate tables has been poisoned by a panic.
pub fn tables_poisoned() -> bool {
    use bemodel::climatedata::{CLIMATEMETADATA, JULYRADDATA, MONTHLYRADDATA};
    JULYRADDATA.is_poisoned() || MONTHLYRADDATA.is_poisoned() || CLIMATEMETADATA.is_poisoned()
}
