//! fd-1 capture: the worker points fd 1 at a private scratch file, so that (a) prints coming
//! from the library under test can never corrupt harness output and (b) the number of bytes the
//! library wrote to standard output during a call is observable in-process.

use std::sync::atomic::{AtomicI32, Ordering};

static SCRATCH_FD: AtomicI32 = AtomicI32::new(-1);

pub fn init() {
    if SCRATCH_FD.load(Ordering::Relaxed) >= 0 {
        return;
    }
    let path = crate::core::tmp_dir().join(format!("stdout.{}.capture", std::process::id()));
    let cpath = std::ffi::CString::new(path.to_string_lossy().as_bytes()).unwrap();
    unsafe {
        let fd = libc::open(cpath.as_ptr(), libc::O_RDWR | libc::O_CREAT | libc::O_TRUNC, 0o600);
        if fd < 0 {
            return;
        }
        libc::unlink(cpath.as_ptr());
        libc::dup2(fd, 1);
        SCRATCH_FD.store(fd, Ordering::Relaxed);
    }
}

/// Number of bytes written to fd 1 so far by this process.
pub fn stdout_bytes() -> u64 {
    use std::io::Write;
    let _ = std::io::stdout().flush();
    let fd = SCRATCH_FD.load(Ordering::Relaxed);
    if fd < 0 {
        return 0;
    }
    unsafe {
        let mut st: libc::stat = std::mem::zeroed();
        if libc::fstat(fd, &mut st) == 0 {
            st.st_size as u64
        } else {
            0
        }
    }
}

/// Reads back what was written to fd 1 between two offsets (for witnesses).
pub fn stdout_slice(from: u64, max: usize) -> String {
    let fd = SCRATCH_FD.load(Ordering::Relaxed);
    if fd < 0 {
        return String::new();
    }
    let mut buf = vec![0u8; max];
    let n = unsafe { libc::pread(fd, buf.as_mut_ptr() as *mut libc::c_void, max, from as libc::off_t) };
    if n <= 0 {
        return String::new();
    }
    buf.truncate(n as usize);
    String::from_utf8_lossy(&buf).to_string()
}

/// Drops what has been captured so far (keeps the scratch file from growing without bound).
pub fn reset() {
    use std::io::Write;
    let _ = std::io::stdout().flush();
    let fd = SCRATCH_FD.load(Ordering::Relaxed);
    if fd >= 0 {
        unsafe {
            libc::ftruncate(fd, 0);
            libc::lseek(fd, 0, libc::SEEK_SET);
        }
    }
}
