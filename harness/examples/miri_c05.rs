//! Auxiliary monitor for C05 under Miri (undefined behaviour / data race interpreter, seeded schedules):
//! the same model's indicators and JSON computed on the main thread and on concurrently running threads
//! must be identical. Run by `./check C05 thorough` through `cargo +nightly miri run --example miri_c05`.
use bemodel::Model;

const CUBO: &str = include_str!("../../../repo/bemodel/tests/data/cubo.json");

fn compute(m: &Model) -> (String, String) {
    let ind = m.energy_indicators();
    (serde_json::to_string(&ind).unwrap(), m.as_json().unwrap())
}

fn main() {
    let threads: usize = std::env::args().nth(1).and_then(|s| s.parse().ok()).unwrap_or(3);
    let m = Model::from_json(CUBO).expect("cubo.json loads");
    let m = std::sync::Arc::new(m);
    let reference = compute(&m);
    let hs: Vec<_> = (0..threads)
        .map(|_| {
            let m = m.clone();
            std::thread::spawn(move || compute(&m))
        })
        .collect();
    let mut differing = 0;
    for h in hs {
        let r = h.join().expect("thread finishes");
        if r != reference {
            differing += 1;
        }
    }
    // and once more on the main thread, after the threads have run (history)
    if compute(&m) != reference {
        differing += 1;
    }
    if differing > 0 {
        println!("MIRI-C05 DIFFER {}", differing);
        std::process::exit(1);
    }
    println!("MIRI-C05 OK threads={} indicators_bytes={} json_bytes={}", threads, reference.0.len(), reference.1.len());
}
