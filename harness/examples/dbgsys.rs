use cteverif::convert::{convert_ctehexml_fast, Conv};
use cteverif::gen::bdl::{gen_building, print_blocks, BuildCfg, Layout};
use cteverif::gen::sysxml::gen_systems;
use cteverif::rng::Rng;
use std::collections::BTreeMap;
fn main() {
    let n: u64 = std::env::args().nth(1).and_then(|s| s.parse().ok()).unwrap_or(200);
    let unk = std::env::args().nth(2).is_some();
    let mut kinds: BTreeMap<String, u64> = BTreeMap::new();
    let (mut ok, mut err, mut pan) = (0, 0, 0);
    let mut errs: BTreeMap<String, u64> = BTreeMap::new();
    for i in 0..n {
        let mut rng = Rng::new(i * 7919 + 1);
        let b = gen_building(&mut rng, &BuildCfg::full());
        let bdl = print_blocks(&mut rng, &b.blocks(), &Layout::hulc());
        let (extra, sys, sum) = gen_systems(&mut rng, &b.space_names(), unk);
        let full = b.ctehexml_ext(&bdl, &extra, &sys);
        if i == 0 { std::fs::write("/tmp/dbgsys0.ctehexml", &full).unwrap(); }
        for k in &sum.kinds { *kinds.entry(k.clone()).or_default() += 1; }
        let before = cteverif::fdcap::stdout_bytes();
        match convert_ctehexml_fast(&full) {
            Conv::Ok(_) => ok += 1,
            Conv::Err(e) => { err += 1; *errs.entry(format!("{} unk={}", e.chars().take(90).collect::<String>(), sum.has_unknown)).or_default() += 1; }
            Conv::Panic(p) => { pan += 1; eprintln!("PANIC {:?}", p); }
        }
        let after = cteverif::fdcap::stdout_bytes();
        if after != before { eprintln!("stdout bytes {}", after - before); }
    }
    eprintln!("ok {} err {} panic {}", ok, err, pan);
    for (k, v) in &errs { eprintln!("  ERR {} x{}", k, v); }
    eprintln!("{} kinds: {:?}", kinds.len(), kinds);
}
