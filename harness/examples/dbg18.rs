use cteverif::core::{Case, Obs, Property, Tier};
use cteverif::rng::*;
fn main() {
    let args: Vec<String> = std::env::args().collect();
    let seed: u64 = args[1].parse().unwrap();
    let kind = &args[2];
    let index: u64 = args[3].parse().unwrap();
    let prop = cteverif::props::c18::C18;
    let case = Case { prop: "C18", kind, index, seed: derive_seed(seed, "C18", kind, index), base_seed: seed, tier: Tier::Quick };
    let mut obs = Obs::default();
    prop.run_case(&case, &mut obs);
    for v in &obs.violations {
        println!("{} :: {}", v.signature, v.message);
        if let Some(t) = v.detail.get("text_head") { std::fs::write("/tmp/dbg18.txt", t.as_str().unwrap_or("")).unwrap(); }
        if let Some(t) = v.detail.get("text") { std::fs::write("/tmp/dbg18.txt", t.as_str().unwrap_or("")).unwrap(); }
    }
}
