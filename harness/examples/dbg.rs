use cteverif::gen::model::*;
use cteverif::oracle::mref::*;
use cteverif::rng::*;
fn main() {
    let args: Vec<String> = std::env::args().collect();
    let seed: u64 = args[1].parse().unwrap();
    let kind = &args[2];
    let index: u64 = args[3].parse().unwrap();
    let mut rng = Rng::new(derive_seed(seed, "C06", kind, index));
    let b = gen_model(&mut rng, &GenCfg::small());
    let m = b.model;
    let r = MRef::new(&m);
    println!("gvr impl {} ref {:?} vol_inh ref {}", m.global_ventilation_rate(), r.global_vent(), r.vol_inh_net());
    for s in &m.spaces {
        println!("{} kind {:?} inside {} area impl {} ref {} hnet impl {} ref {}", s.name, s.kind, s.inside_tenv, s.area(&m.walls), r.space_area(s.id), s.height_net(&m.walls, &m.cons), r.height_net(s.id));
    }
}
